(* The whole rational-quadratic spline (Model/SplineRQ.v over the generated formulas): the knot vectors built from ANY
   unnormalised parameters are strictly increasing from one end of the box to the other, every bin has positive width,
   height and end derivatives, every input of the box falls into a bin, and therefore the spline is a strictly increasing
   bijection of [left, right] onto [bottom, top] whose inverse is the inverse branch. *)
From Coq Require Import Reals ZArith List Bool Arith Lia Lra Sorted.
From Coquelicot Require Import Coquelicot.
From NF Require Import Base.Ops Base.Rops Base.Result Gen.Utils Gen.SplineRQ Model.Utils Model.Vec Model.SplineRQ
  Proofs.VecR Proofs.UtilsR Proofs.SplineRQP Proofs.RQBinIntegral Proofs.Glue.
Import ListNotations.
Open Scope R_scope.

Lemma IZR_of_nat (n : nat) : IZR (Z.of_nat n) = INR n.
Proof. symmetry. apply INR_IZR_INZ. Qed.

Section Knots.
  Variables (minb lo hi : R) (u : list R).
  Let K := length u.
  Hypothesis (Hne : u <> []) (Hm0 : 0 <= minb) (HmK : minb * INR K <= 1) (Hbox : lo < hi).

  Definition kw : list R := map (fun v => rq_width_affine Rops minb (IZR (Z.of_nat K)) v) (softmax Rops u).

  Lemma kw_length : length kw = K.
  Proof. unfold kw. rewrite map_length, softmax_length. reflexivity. Qed.

  Lemma K_pos : (0 < K)%nat.
  Proof. unfold K. destruct u; [congruence | simpl; lia]. Qed.

  Lemma kw_pos : List.Forall (fun v => 0 < v) kw.
  Proof.
    unfold kw. rewrite Forall_forall. intros v Hv. rewrite in_map_iff in Hv. destruct Hv as [s [<- Hs]].
    pose proof (softmax_pos u Hne) as P. rewrite Forall_forall in P. specialize (P s Hs).
    unfold rq_width_affine. cbn [o_add o_mul o_sub o_ofZ Rops]. rewrite IZR_of_nat.
    destruct (Rle_lt_or_eq_dec 0 minb Hm0) as [Hp|<-].
    - assert (0 <= (1 - minb * INR K) * s) by (apply Rmult_le_pos; lra). lra.
    - nra.
  Qed.

  Lemma kw_sum : vsumR kw = 1.
  Proof.
    unfold kw. unfold rq_width_affine. cbn [o_add o_mul o_sub o_ofZ Rops]. rewrite IZR_of_nat.
    rewrite (vsum_map_affine minb (1 - minb * INR K)). rewrite softmax_length, softmax_sum by exact Hne. fold K. lra.
  Qed.

  Definition aff (v : R) : R := rq_cumwidth_affine Rops lo hi v.
  Lemma aff_eq v : aff v = lo + (hi - lo) * v.
  Proof. unfold aff, rq_cumwidth_affine. cbn [o_add o_mul o_sub Rops]. lra. Qed.

  Definition raw : list R := map aff (0 :: cumsum Rops kw).

  Lemma raw_length : length raw = S K.
  Proof. unfold raw. rewrite map_length. cbn [length]. rewrite cumsum_length, kw_length. reflexivity. Qed.

  Lemma raw_nth i : (i <= K)%nat -> nth i raw 0 = lo + (hi - lo) * psum kw i.
  Proof.
    intros Hi. unfold raw. rewrite (nth_indep _ 0 (aff 0)) by (rewrite map_length; cbn [length]; rewrite cumsum_length, kw_length; lia).
    rewrite map_nth. rewrite zcumsum_nth by (rewrite kw_length; lia). apply aff_eq.
  Qed.

  Lemma knots_eq : knots Rops minb lo hi u = raw.
  Proof.
    change (set_last hi (set_first lo raw) = raw).
    assert (Hr : raw <> []) by (intro E; pose proof raw_length as L; rewrite E in L; simpl in L; lia).
    rewrite (set_first_same lo raw).
    - apply set_last_same; [|exact Hr]. rewrite last_nth, raw_length. replace (S K - 1)%nat with K by lia.
      rewrite raw_nth by lia. replace (psum kw K) with (psum kw (length kw)) by (rewrite kw_length; reflexivity). rewrite psum_all, kw_sum. lra.
    - rewrite raw_nth by lia. rewrite psum_0. lra.
    - exact Hr.
  Qed.

  Lemma knots_length : length (knots Rops minb lo hi u) = S K.
  Proof. rewrite knots_eq. apply raw_length. Qed.

  Lemma knots_nth i : (i <= K)%nat -> nth i (knots Rops minb lo hi u) 0 = lo + (hi - lo) * psum kw i.
  Proof. rewrite knots_eq. apply raw_nth. Qed.

  Lemma knots_first : nth 0 (knots Rops minb lo hi u) 0 = lo.
  Proof. rewrite knots_nth by lia. rewrite psum_0. lra. Qed.

  Lemma knots_last : nth K (knots Rops minb lo hi u) 0 = hi.
  Proof. rewrite knots_nth by lia. replace (psum kw K) with (psum kw (length kw)) by (rewrite kw_length; reflexivity). rewrite psum_all, kw_sum. lra. Qed.

  Lemma knots_increasing i j : (i < j)%nat -> (j <= K)%nat ->
    nth i (knots Rops minb lo hi u) 0 < nth j (knots Rops minb lo hi u) 0.
  Proof.
    intros Hij Hj. rewrite !knots_nth by lia.
    assert (psum kw i < psum kw j) by (apply psum_lt; [apply kw_pos | exact Hij | rewrite kw_length; exact Hj]). nra.
  Qed.

  Lemma knots_sorted : StronglySorted Rlt (knots Rops minb lo hi u).
  Proof. apply sorted_of_nth. intros i j Hij Hj. rewrite knots_length in Hj. apply knots_increasing; lia. Qed.

  Lemma knots_diff k : (k < K)%nat ->
    nth k (diffs Rops (knots Rops minb lo hi u)) 0 = nth (S k) (knots Rops minb lo hi u) 0 - nth k (knots Rops minb lo hi u) 0
    /\ 0 < nth k (diffs Rops (knots Rops minb lo hi u)) 0.
  Proof.
    intros Hk. assert (E : nth k (diffs Rops (knots Rops minb lo hi u)) 0
                          = nth (S k) (knots Rops minb lo hi u) 0 - nth k (knots Rops minb lo hi u) 0).
    { apply diffs_nth. rewrite knots_length. lia. }
    split; [exact E|]. rewrite E. assert (nth k (knots Rops minb lo hi u) 0 < nth (S k) (knots Rops minb lo hi u) 0) by (apply knots_increasing; lia). lra.
  Qed.

  Lemma knots_within i : (i <= K)%nat -> lo <= nth i (knots Rops minb lo hi u) 0 <= hi.
  Proof.
    intros Hi. pose proof knots_first as F. pose proof knots_last as L. split.
    - destruct (Nat.eq_dec i 0) as [->|Hn]; [lra|].
      assert (nth 0 (knots Rops minb lo hi u) 0 < nth i (knots Rops minb lo hi u) 0) by (apply knots_increasing; lia). lra.
    - destruct (Nat.eq_dec i K) as [->|Hn]; [lra|].
      assert (nth i (knots Rops minb lo hi u) 0 < nth K (knots Rops minb lo hi u) 0) by (apply knots_increasing; lia). lra.
  Qed.
End Knots.

Section Whole.
  Variables (c : @rq_cfg R) (bx : @box R) (uw uh ud : list R).
  Let K := length uw.
  Hypothesis (HK : uw <> []) (Hlh : length uh = K) (Hld : length ud = S K).
  Hypothesis (Hw0 : 0 <= min_bin_width c) (HwK : min_bin_width c * INR K <= 1)
             (Hh0 : 0 <= min_bin_height c) (HhK : min_bin_height c * INR K <= 1)
             (Hmd : 0 <= min_derivative c) (Hbeta : 0 < rq_beta Rops c)
             (Hlr : b_left bx < b_right bx) (Hbt : b_bottom bx < b_top bx).

  Let kn := rq_build Rops c bx uw uh ud.
  Let cw := knots Rops (min_bin_width c) (b_left bx) (b_right bx) uw.
  Let ch := knots Rops (min_bin_height c) (b_bottom bx) (b_top bx) uh.

  Lemma KP : (0 < K)%nat.
  Proof. unfold K. assert (length uw <> 0%nat) by (intro E; apply length_zero_iff_nil in E; exact (HK E)). lia. Qed.

  Lemma uh_ne : uh <> [].
  Proof. intro E. pose proof KP. assert (length uh = 0%nat) by (rewrite E; reflexivity). lia. Qed.

  Lemma HhK' : min_bin_height c * INR (length uh) <= 1.
  Proof. rewrite Hlh. exact HhK. Qed.

  (* positive end derivatives *)
  Lemma deriv_positive k : (k <= K)%nat -> 0 < nthT Rops k (derivs kn).
  Proof.
    intros Hk. unfold nthT, kn, rq_build. cbn [derivs o_zero Rops]. unfold derivatives.
    rewrite (nth_indep _ 0 (rq_derivative Rops (min_derivative c) (rq_beta Rops c) 0)) by (rewrite map_length; lia).
    rewrite map_nth. unfold rq_derivative, o_softplus_beta. cbn [o_add o_div o_ln o_one o_exp o_mul Rops].
    assert (0 < ln (1 + exp (rq_beta Rops c * nth k ud 0))).
    { set (e := exp _). assert (E : 0 < e) by apply exp_pos. rewrite <- ln_1. apply ln_increasing; [apply Rlt_0_1 | lra]. }
    assert (0 < ln (1 + exp (rq_beta Rops c * nth k ud 0)) / rq_beta Rops c) by (apply Rdiv_lt_0_compat; assumption).
    lra.
  Qed.

  (* the quantities of bin k *)
  Definition xk (k : nat) := nth k cw 0.
  Definition yk (k : nat) := nth k ch 0.
  Definition wk (k : nat) := nth k (diffs Rops cw) 0.
  Definition hk (k : nat) := nth k (diffs Rops ch) 0.
  Definition dk (k : nat) := nthT Rops k (derivs kn).

  Lemma wk_eq k : (k < K)%nat -> xk k + wk k = xk (S k) /\ 0 < wk k.
  Proof.
    intros Hk. destruct (knots_diff (min_bin_width c) (b_left bx) (b_right bx) uw HK Hw0 HwK Hlr k Hk) as [E P].
    unfold xk, wk, cw. split; [rewrite E; lra | exact P].
  Qed.

  Lemma hk_eq k : (k < K)%nat -> yk k + hk k = yk (S k) /\ 0 < hk k.
  Proof.
    intros Hk. assert (Hk' : (k < length uh)%nat) by (rewrite Hlh; exact Hk).
    destruct (knots_diff (min_bin_height c) (b_bottom bx) (b_top bx) uh uh_ne Hh0 HhK' Hbt k Hk') as [E P].
    unfold yk, hk, ch. split; [rewrite E; lra | exact P].
  Qed.

  (* evaluation of the model on an input of the box: it is the bin formula of the bin the search finds *)
  Lemma rq_eval_bin (f : R -> R -> R -> R -> R -> R -> R -> R -> R) k x :
    rq_eval Rops f kn k x = f x (xk k) (wk k) (yk k) (hk k / wk k) (dk k) (dk (S k)) (hk k).
  Proof. reflexivity. Qed.

  Lemma forward_in_bin x : b_left bx <= x <= b_right bx ->
    exists k, (k < K)%nat /\ xk k <= x /\ (x < xk (S k) \/ S k = K) /\ x <= xk (S k) /\
      rq_spline Rops c false bx uw uh ud x
      = Ok (fwd (xk k) (wk k) (yk k) (hk k) (dk k) (dk (S k)) x, lad (xk k) (wk k) (yk k) (hk k) (dk k) (dk (S k)) x).
  Proof.
    intros [Hlo Hhi].
    pose proof KP as KP.
    assert (Hlen : length cw = S K) by (unfold cw; apply knots_length; assumption).
    assert (Hsort : StronglySorted Rlt cw) by (unfold cw; apply knots_sorted; assumption).
    assert (Hfirst : nth 0 cw 0 = b_left bx) by (unfold cw; apply knots_first; assumption).
    assert (Hlast : nth K cw 0 = b_right bx) by (unfold cw; apply knots_last; assumption).
    destruct (searchsorted_spec cw x K Hlen KP Hsort) as [k [Ek [HkK [Hge Hlt]]]]; [rewrite Hfirst, Hlast; lra|].
    exists k. split; [exact HkK|]. split; [exact Hge|]. split; [exact Hlt|]. split.
    { destruct Hlt as [Hlt|E]; [unfold xk; lra|]. unfold xk. rewrite E, Hlast. exact Hhi. }
    unfold rq_spline. cbn [rq_bounds]. unfold rq_rejects. cbn [o_ltb Rops].
    assert (R1 : Rltb x (b_left bx) = false) by (apply Rltb_false; exact Hlo).
    assert (R2 : Rltb (b_right bx) x = false) by (apply Rltb_false; exact Hhi).
    rewrite R1, R2. cbn [orb]. cbn [o_one o_mul o_ofZ Rops]. rewrite IZR_of_nat. fold K.
    assert (R3 : Rltb 1 (min_bin_width c * INR K) = false) by (apply Rltb_false; exact HwK).
    assert (R4 : Rltb 1 (min_bin_height c * INR K) = false) by (apply Rltb_false; exact HhK).
    rewrite R3, R4. fold kn. unfold rq_bin. change (cumwidths kn) with cw. rewrite Ek, Nat2Z.id.
    assert (R5 : Nat.leb K k = false) by (apply Nat.leb_gt; exact HkK). rewrite R5.
    rewrite !rq_eval_bin. reflexivity.
  Qed.

  (* ---- consequences for the whole spline ---- *)
  Definition F (x : R) : R := match rq_spline Rops c false bx uw uh ud x with Ok (y, _) => y | _ => 0 end.
  Definition Flad (x : R) : R := match rq_spline Rops c false bx uw uh ud x with Ok (_, l) => l | _ => 0 end.

  Lemma bin_facts k : (k < K)%nat ->
    0 < wk k /\ 0 < hk k /\ 0 < dk k /\ 0 < dk (S k) /\ xk k + wk k = xk (S k) /\ yk k + hk k = yk (S k).
  Proof.
    intros Hk. destruct (wk_eq k Hk) as [E1 P1]. destruct (hk_eq k Hk) as [E2 P2].
    repeat split; try assumption; unfold dk; apply deriv_positive; lia.
  Qed.

  Lemma yk_within i : (i <= K)%nat -> b_bottom bx <= yk i <= b_top bx.
  Proof.
    intros Hi. unfold yk, ch. apply knots_within; try assumption; [apply uh_ne | apply HhK' | rewrite Hlh; exact Hi].
  Qed.

  Lemma yk_increasing i j : (i < j)%nat -> (j <= K)%nat -> yk i < yk j.
  Proof. intros Hij Hj. unfold yk, ch. apply knots_increasing; try assumption; [apply uh_ne | apply HhK' | rewrite Hlh; exact Hj]. Qed.

  Lemma xk_increasing i j : (i < j)%nat -> (j <= K)%nat -> xk i < xk j.
  Proof. intros Hij Hj. unfold xk, cw. apply knots_increasing; assumption. Qed.

  (* accepted, inside the output interval, and the log-abs-det is the logarithm of a positive derivative *)
  Theorem whole_forward_range x : b_left bx <= x <= b_right bx ->
    exists y l, rq_spline Rops c false bx uw uh ud x = Ok (y, l) /\ (b_bottom bx <= y <= b_top bx) /\
      (exists d, 0 < d /\ l = ln d).
  Proof.
    intros Hx. destruct (forward_in_bin x Hx) as [k [Hk [Hge [_ [Hle E]]]]].
    destruct (bin_facts k Hk) as [Pw [Ph [Pd0 [Pd1 [Ex Ey]]]]].
    assert (Hin : xk k <= x <= xk k + wk k) by (rewrite Ex; split; assumption).
    eexists. eexists. split; [exact E|]. split.
    - pose proof (fwd_range (xk k) (wk k) (yk k) (hk k) (dk k) (dk (S k)) Pw Ph Pd0 Pd1 x Hin) as [A B].
      rewrite Ey in B. pose proof (yk_within k ltac:(lia)). pose proof (yk_within (S k) ltac:(lia)). lra.
    - exists (deriv (xk k) (wk k) (hk k) (dk k) (dk (S k)) x). split; [apply deriv_pos; assumption | apply lad_is_ln_deriv; assumption].
  Qed.

  (* the end points of the box are mapped to the end points of the output interval *)
  Theorem whole_end_points : F (b_left bx) = b_bottom bx /\ F (b_right bx) = b_top bx.
  Proof.
    assert (HxK : xk K = b_right bx) by (unfold xk, cw; apply knots_last; assumption).
    assert (Hx0 : xk 0 = b_left bx) by (unfold xk, cw; apply knots_first; assumption).
    assert (HyK : yk K = b_top bx) by (unfold yk, ch; rewrite <- Hlh; apply knots_last; apply uh_ne).
    assert (Hy0 : yk 0 = b_bottom bx) by (unfold yk, ch; apply knots_first; apply uh_ne).
    split.
    - destruct (forward_in_bin (b_left bx) ltac:(lra)) as [k [Hk [Hge [Hlt [Hle E]]]]]. unfold F. rewrite E.
      destruct (bin_facts k Hk) as [Pw [Ph [Pd0 [Pd1 [Ex Ey]]]]].
      assert (k = 0%nat).
      { destruct (Nat.eq_dec k 0) as [->|Hn]; [reflexivity|]. exfalso.
        assert (xk 0 < xk k) by (apply xk_increasing; lia). lra. }
      subst k. rewrite <- Hx0. rewrite fwd_left by assumption. exact Hy0.
    - destruct (forward_in_bin (b_right bx) ltac:(lra)) as [k [Hk [Hge [Hlt [Hle E]]]]]. unfold F. rewrite E.
      destruct (bin_facts k Hk) as [Pw [Ph [Pd0 [Pd1 [Ex Ey]]]]].
      assert (S k = K).
      { destruct Hlt as [Hlt|Ek]; [|exact Ek]. exfalso.
        assert (xk (S k) <= xk K). { destruct (Nat.eq_dec (S k) K) as [->|Hn]; [lra|]. left. apply xk_increasing; lia. } lra. }
      replace (b_right bx) with (xk k + wk k) by (rewrite Ex, H; exact HxK).
      rewrite fwd_right by assumption. rewrite Ey, H. exact HyK.
  Qed.

  (* strictly increasing on the whole box, across bins *)
  Theorem whole_increasing a b : b_left bx <= a -> a < b -> b <= b_right bx -> F a < F b.
  Proof.
    intros Ha Hab Hb.
    destruct (forward_in_bin a ltac:(lra)) as [k [Hk [Hge [Hlt [Hle E]]]]].
    destruct (forward_in_bin b ltac:(lra)) as [k' [Hk' [Hge' [Hlt' [Hle' E']]]]].
    unfold F. rewrite E, E'.
    destruct (bin_facts k Hk) as [Pw [Ph [Pd0 [Pd1 [Ex Ey]]]]].
    destruct (bin_facts k' Hk') as [Pw' [Ph' [Pd0' [Pd1' [Ex' Ey']]]]].
    destruct (lt_eq_lt_dec k k') as [[Hlt2| Ekk]|Hgt]; [| subst k' |].
    - (* a in an earlier bin: F a <= y_{k+1} <= y_{k'} <= F b, and one of the inequalities is strict *)
      assert (Hina : xk k <= a <= xk k + wk k) by (rewrite Ex; split; assumption).
      assert (Hinb : xk k' <= b <= xk k' + wk k') by (rewrite Ex'; split; assumption).
      pose proof (fwd_range _ _ (yk k) (hk k) _ _ Pw Ph Pd0 Pd1 a Hina) as [_ A]. rewrite Ey in A.
      pose proof (fwd_range _ _ (yk k') (hk k') _ _ Pw' Ph' Pd0' Pd1' b Hinb) as [B _].
      destruct (Nat.eq_dec (S k) k') as [Ek|Hn].
      + subst k'. destruct Hlt as [Hlt|EK]; [|lia].
        (* a < x_{k+1}: strictly below the knot value *)
        assert (fwd (xk k) (wk k) (yk k) (hk k) (dk k) (dk (S k)) a < yk (S k)).
        { rewrite <- Ey. rewrite <- (fwd_right (xk k) (wk k) (yk k) (hk k) (dk k) (dk (S k)) Pw Ph).
          apply fwd_increasing; try assumption; lra. }
        lra.
      + assert (yk (S k) < yk k') by (apply yk_increasing; lia). lra.
    - apply fwd_increasing; try assumption. rewrite Ex'. exact Hle'.
    - exfalso. (* b would lie in an earlier bin than a *)
      assert (xk (S k') <= xk k). { destruct (Nat.eq_dec (S k') k) as [->|Hn]; [lra|]. left. apply xk_increasing; lia. }
      lra.
  Qed.

  (* ---- the inverse branch ---- *)
  Lemma inverse_in_bin y : b_bottom bx <= y <= b_top bx ->
    exists k, (k < K)%nat /\ yk k <= y /\ (y < yk (S k) \/ S k = K) /\ y <= yk (S k) /\
      rq_spline Rops c true bx uw uh ud y
      = Ok (inv (xk k) (wk k) (yk k) (hk k) (dk k) (dk (S k)) y, inv_lad (xk k) (wk k) (yk k) (hk k) (dk k) (dk (S k)) y).
  Proof.
    intros [Hlo Hhi].
    pose proof KP as KP.
    assert (Hlen : length ch = S K) by (unfold ch; rewrite <- Hlh; apply knots_length; apply uh_ne).
    assert (Hsort : StronglySorted Rlt ch) by (unfold ch; apply knots_sorted; try assumption; [apply uh_ne | apply HhK']).
    assert (Hfirst : nth 0 ch 0 = b_bottom bx) by (unfold ch; apply knots_first; apply uh_ne).
    assert (Hlast : nth K ch 0 = b_top bx) by (unfold ch; rewrite <- Hlh; apply knots_last; apply uh_ne).
    destruct (searchsorted_spec ch y K Hlen KP Hsort) as [k [Ek [HkK [Hge Hlt]]]]; [rewrite Hfirst, Hlast; lra|].
    exists k. split; [exact HkK|]. split; [exact Hge|]. split; [exact Hlt|]. split.
    { destruct Hlt as [Hlt|E]; [unfold yk; lra|]. unfold yk. rewrite E, Hlast. exact Hhi. }
    unfold rq_spline. cbn [rq_bounds]. unfold rq_rejects. cbn [o_ltb Rops].
    assert (R1 : Rltb y (b_bottom bx) = false) by (apply Rltb_false; exact Hlo).
    assert (R2 : Rltb (b_top bx) y = false) by (apply Rltb_false; exact Hhi).
    rewrite R1, R2. cbn [orb]. cbn [o_one o_mul o_ofZ Rops]. rewrite IZR_of_nat. fold K.
    assert (R3 : Rltb 1 (min_bin_width c * INR K) = false) by (apply Rltb_false; exact HwK).
    assert (R4 : Rltb 1 (min_bin_height c * INR K) = false) by (apply Rltb_false; exact HhK).
    rewrite R3, R4. fold kn. unfold rq_bin. change (cumheights kn) with ch. rewrite Ek, Nat2Z.id.
    assert (R5 : Nat.leb K k = false) by (apply Nat.leb_gt; exact HkK). rewrite R5.
    rewrite !rq_eval_bin. reflexivity.
  Qed.

  (* a value lies in exactly one bin of an increasing knot sequence *)
  Lemma bin_unique (g : nat -> R) (v : R) i j :
    (forall a b, (a < b)%nat -> (b <= K)%nat -> g a < g b) ->
    (i < K)%nat -> (j < K)%nat -> g i <= v -> (v < g (S i) \/ S i = K) -> g j <= v -> (v < g (S j) \/ S j = K) -> i = j.
  Proof.
    intros Hinc Hi Hj A1 A2 B1 B2. destruct (lt_eq_lt_dec i j) as [[L|E]|L]; [|exact E|]; exfalso.
    - destruct A2 as [A2|A2]; [|lia].
      assert (g (S i) <= g j). { destruct (Nat.eq_dec (S i) j) as [<-|N]; [lra|]. left. apply Hinc; lia. } lra.
    - destruct B2 as [B2|B2]; [|lia].
      assert (g (S j) <= g i). { destruct (Nat.eq_dec (S j) i) as [<-|N]; [lra|]. left. apply Hinc; lia. } lra.
  Qed.

  (* inverse (forward x) = x with the negated log-abs-det, for every x of the box *)
  Theorem whole_inverse_of_forward x : b_left bx <= x <= b_right bx ->
    rq_spline Rops c true bx uw uh ud (F x) = Ok (x, - Flad x).
  Proof.
    intros Hx. destruct (forward_in_bin x Hx) as [k [Hk [Hge [Hlt [Hle E]]]]].
    destruct (bin_facts k Hk) as [Pw [Ph [Pd0 [Pd1 [Ex Ey]]]]].
    assert (Hin : xk k <= x <= xk k + wk k) by (rewrite Ex; split; assumption).
    unfold F, Flad. rewrite E. set (y := fwd (xk k) (wk k) (yk k) (hk k) (dk k) (dk (S k)) x).
    pose proof (fwd_range _ _ (yk k) (hk k) _ _ Pw Ph Pd0 Pd1 x Hin) as [A B]. fold y in A, B. rewrite Ey in B.
    assert (Hy : b_bottom bx <= y <= b_top bx).
    { pose proof (yk_within k ltac:(lia)). pose proof (yk_within (S k) ltac:(lia)). lra. }
    destruct (inverse_in_bin y Hy) as [k' [Hk' [Hge' [Hlt' [Hle' E']]]]].
    assert (Hy2 : y < yk (S k) \/ S k = K).
    { destruct Hlt as [Hlt|EK]; [left | right; exact EK].
      unfold y. rewrite <- Ey. rewrite <- (fwd_right (xk k) (wk k) (yk k) (hk k) (dk k) (dk (S k)) Pw Ph).
      apply fwd_increasing; try assumption; lra. }
    assert (k' = k) by (apply (bin_unique yk y); try assumption; apply yk_increasing). subst k'.
    rewrite E'. unfold y. rewrite inv_fwd by assumption. rewrite inv_lad_neg by assumption. rewrite inv_fwd by assumption. reflexivity.
  Qed.

  (* forward (inverse y) = y: every value of the output interval is attained (the spline is onto), at the point the inverse
     branch returns *)
  Theorem whole_forward_of_inverse y : b_bottom bx <= y <= b_top bx ->
    exists x l, rq_spline Rops c true bx uw uh ud y = Ok (x, l) /\ (b_left bx <= x <= b_right bx) /\ F x = y /\ l = - Flad x.
  Proof.
    intros Hy. destruct (inverse_in_bin y Hy) as [k [Hk [Hge [Hlt [Hle E]]]]].
    destruct (bin_facts k Hk) as [Pw [Ph [Pd0 [Pd1 [Ex Ey]]]]].
    assert (Hin : yk k <= y <= yk k + hk k) by (rewrite Ey; split; assumption).
    set (x := inv (xk k) (wk k) (yk k) (hk k) (dk k) (dk (S k)) y).
    pose proof (inv_in_bin (xk k) (wk k) (yk k) (hk k) (dk k) (dk (S k)) Pw Ph Pd0 y Hin) as [A B]. fold x in A, B. rewrite Ex in B.
    assert (Hfx : fwd (xk k) (wk k) (yk k) (hk k) (dk k) (dk (S k)) x = y) by (apply fwd_inv; assumption).
    assert (Hxb : b_left bx <= x <= b_right bx).
    { assert (b_left bx <= xk k <= b_right bx) by (unfold xk, cw; apply knots_within; try assumption; lia).
      assert (b_left bx <= xk (S k) <= b_right bx) by (unfold xk, cw; apply knots_within; try assumption; lia). lra. }
    destruct (forward_in_bin x Hxb) as [k' [Hk' [Hge' [Hlt' [Hle' E']]]]].
    assert (Hx2 : x < xk (S k) \/ S k = K).
    { destruct Hlt as [Hlt|EK]; [left | right; exact EK].
      destruct (Rle_lt_or_eq_dec _ _ B) as [L|Eq]; [exact L|]. exfalso.
      rewrite <- Ex in Eq. rewrite Eq in Hfx. rewrite fwd_right in Hfx by assumption. lra. }
    assert (k' = k) by (apply (bin_unique xk x); try assumption; apply xk_increasing). subst k'.
    exists x, (inv_lad (xk k) (wk k) (yk k) (hk k) (dk k) (dk (S k)) y). split; [exact E|]. split; [exact Hxb|].
    unfold F, Flad. rewrite E'. split; [exact Hfx|]. unfold x. apply inv_lad_neg. exact Pw.
  Qed.

  (* ---- differentiability of the whole spline, knots included ---- *)
  Lemma xk_within i : (i <= K)%nat -> b_left bx <= xk i <= b_right bx.
  Proof. intros Hi. unfold xk, cw. apply knots_within; assumption. Qed.

  Lemma F_on_bin j y : (j < K)%nat -> xk j <= y -> y < xk (S j) ->
    F y = fwd (xk j) (wk j) (yk j) (hk j) (dk j) (dk (S j)) y /\ Flad y = lad (xk j) (wk j) (yk j) (hk j) (dk j) (dk (S j)) y.
  Proof.
    intros Hj A B.
    assert (Hb : b_left bx <= y <= b_right bx).
    { pose proof (xk_within j ltac:(lia)). pose proof (xk_within (S j) ltac:(lia)). lra. }
    destruct (forward_in_bin y Hb) as [k [Hk [Hge [Hlt [Hle E]]]]].
    assert (k = j) by (apply (bin_unique xk y); try assumption; [apply xk_increasing | left; exact B]). subst k.
    unfold F, Flad. rewrite E. split; reflexivity.
  Qed.

  Definition Dk (k : nat) (x : R) : R := deriv (xk k) (wk k) (hk k) (dk k) (dk (S k)) x.

  Lemma fwd_k_derive k x : (k < K)%nat -> xk k <= x <= xk (S k) ->
    is_derive (fwd (xk k) (wk k) (yk k) (hk k) (dk k) (dk (S k))) x (Dk k x).
  Proof.
    intros Hk Hx. destruct (bin_facts k Hk) as [Pw [Ph [Pd0 [Pd1 [Ex Ey]]]]].
    apply (fwd_derive (xk k) (wk k) (yk k) (hk k) (dk k) (dk (S k)) Pw Ph Pd0 Pd1 x). rewrite Ex. exact Hx.
  Qed.

  Theorem whole_derivative x : b_left bx < x < b_right bx ->
    is_derive F x (exp (Flad x)) /\ 0 < exp (Flad x).
  Proof.
    intros [Hl Hr]. split; [|apply exp_pos].
    destruct (forward_in_bin x ltac:(lra)) as [k [Hk [Hge [Hlt [Hle E]]]]].
    destruct (bin_facts k Hk) as [Pw [Ph [Pd0 [Pd1 [Ex Ey]]]]].
    assert (HxK : xk K = b_right bx) by (unfold xk, cw; apply knots_last; assumption).
    assert (Hx0 : xk 0 = b_left bx) by (unfold xk, cw; apply knots_first; assumption).
    assert (Hlt' : x < xk (S k)).
    { destruct Hlt as [L|EK]; [exact L|]. rewrite EK, HxK. exact Hr. }
    assert (Hin : xk k <= x <= xk k + wk k) by (rewrite Ex; lra).
    assert (EL : exp (Flad x) = Dk k x).
    { unfold Flad. rewrite E. unfold Dk. rewrite (lad_is_ln_deriv _ _ (yk k) _ _ _ Pw Ph Pd0 Pd1 x Hin).
      apply exp_ln. apply deriv_pos; assumption. }
    rewrite EL.
    destruct (Rle_lt_or_eq_dec _ _ Hge) as [Hgt|Eq].
    - (* strictly inside bin k: F coincides with the bin formula on a neighbourhood *)
      apply (derive_ext_near F (fwd (xk k) (wk k) (yk k) (hk k) (dk k) (dk (S k))) x (Dk k x)).
      + apply fwd_k_derive; [exact Hk | lra].
      + exists (Rmin (x - xk k) (xk (S k) - x)). split; [apply Rmin_glb_lt; lra|].
        intros y [Y1 Y2].
        assert (xk k < y) by (pose proof (Rmin_l (x - xk k) (xk (S k) - x)); lra).
        assert (y < xk (S k)) by (pose proof (Rmin_r (x - xk k) (xk (S k) - x)); lra).
        apply F_on_bin; [exact Hk | lra | assumption].
    - (* x is the knot x_k, with k >= 1 because x > left *)
      assert (Hk1 : (0 < k)%nat).
      { destruct k as [|k']; [exfalso; rewrite Hx0 in Eq; lra | lia]. }
      destruct k as [|j]; [lia|].
      assert (Hj : (j < K)%nat) by lia.
      destruct (bin_facts j Hj) as [Pwj [Phj [Pd0j [Pd1j [Exj Eyj]]]]].
      apply (derive_glue F (fwd (xk j) (wk j) (yk j) (hk j) (dk j) (dk (S j)))
                           (fwd (xk (S j)) (wk (S j)) (yk (S j)) (hk (S j)) (dk (S j)) (dk (S (S j)))) x (Dk (S j) x)).
      + (* left piece at its right end: derivative d_{j+1} *)
        replace (Dk (S j) x) with (Dk j x).
        * apply fwd_k_derive; [exact Hj | rewrite <- Eq; pose proof (xk_increasing j (S j) ltac:(lia) ltac:(lia)); lra].
        * unfold Dk. rewrite <- Eq.
          rewrite (deriv_left (xk (S j)) (wk (S j)) (hk (S j)) (dk (S j)) (dk (S (S j))) Pw Ph).
          rewrite <- Exj. apply deriv_right; assumption.
      + apply fwd_k_derive; [exact Hk | lra].
      + (* values agree at the knot *)
        unfold F. rewrite E. rewrite <- Eq. rewrite fwd_left by assumption. rewrite <- Exj. rewrite fwd_right by assumption. exact Eyj.
      + unfold F. rewrite E. reflexivity.
      + exists (wk j). split; [exact Pwj|]. intros y [Y1 Y2]. apply F_on_bin; [exact Hj | rewrite <- Eq in Y1; lra | rewrite <- Eq in Y2; exact Y2].
      + exists (wk (S j)). split; [exact Pw|]. intros y [Y1 Y2]. apply F_on_bin; [exact Hk | rewrite <- Eq in Y1; lra | rewrite <- Ex; rewrite <- Eq in Y2; lra].
  Qed.

  (* ---- change of variables through the whole spline (C03): bin by bin, glued with Chasles ---- *)
  Section Integral.
    Variable phi : R -> R.
    Hypothesis Hphi : forall y, b_bottom bx <= y <= b_top bx -> continuous phi y.

    Lemma piece_integral k : (k < K)%nat ->
      is_RInt (fun x => phi (F x) * exp (Flad x)) (xk k) (xk (S k)) (RInt phi (yk k) (yk (S k))).
    Proof.
      intros Hk. destruct (bin_facts k Hk) as [Pw [Ph [Pd0 [Pd1 [Ex Ey]]]]].
      pose proof (yk_within k ltac:(lia)) as Y0. pose proof (yk_within (S k) ltac:(lia)) as Y1.
      rewrite <- Ex, <- Ey.
      apply (is_RInt_ext (fun x => phi (fwd (xk k) (wk k) (yk k) (hk k) (dk k) (dk (S k)) x)
                                   * deriv (xk k) (wk k) (hk k) (dk k) (dk (S k)) x)).
      - intros x Hx. rewrite Rmin_left, Rmax_right in Hx by lra.
        destruct (F_on_bin k x Hk ltac:(lra) ltac:(rewrite <- Ex; lra)) as [EF EL].
        assert (Hin : xk k <= x <= xk k + wk k) by lra.
        rewrite EF, EL. rewrite (lad_is_ln_deriv _ _ (yk k) _ _ _ Pw Ph Pd0 Pd1 x Hin).
        rewrite exp_ln by (apply deriv_pos; assumption). reflexivity.
      - apply bin_integral; try assumption. intros y Hy. apply Hphi. lra.
    Qed.

    Lemma phi_integrable a b : b_bottom bx <= a -> a <= b -> b <= b_top bx -> ex_RInt phi a b.
    Proof.
      intros A B C. apply (ex_RInt_continuous (V := R_CompleteNormedModule)). intros z Hz. rewrite Rmin_left, Rmax_right in Hz by exact B. apply Hphi. lra.
    Qed.

    Lemma upto_integral k : (k <= K)%nat ->
      is_RInt (fun x => phi (F x) * exp (Flad x)) (xk 0) (xk k) (RInt phi (yk 0) (yk k)).
    Proof.
      induction k as [|k IH]; intros Hk.
      - rewrite RInt_point. apply (is_RInt_point (V := R_NormedModule)).
      - pose proof (yk_within 0 ltac:(lia)) as Y0. pose proof (yk_within k ltac:(lia)) as Yk. pose proof (yk_within (S k) ltac:(lia)) as Ys.
        assert (Y0k : yk 0 <= yk k).
        { destruct k as [|k']; [lra | left; apply yk_increasing; lia]. }
        assert (Yks : yk k <= yk (S k)) by (left; apply yk_increasing; lia).
        rewrite <- (RInt_Chasles phi (yk 0) (yk k) (yk (S k))).
        + apply (is_RInt_Chasles (V := R_NormedModule) _ (xk 0) (xk k) (xk (S k))); [apply IH; lia | apply piece_integral; lia].
        + apply phi_integrable; lra.
        + apply phi_integrable; lra.
    Qed.

    (* the density phi(F x) F'(x) of the spline flow carries exactly the base mass of the target interval *)
    Theorem whole_change_of_variables :
      is_RInt (fun x => phi (F x) * exp (Flad x)) (b_left bx) (b_right bx) (RInt phi (b_bottom bx) (b_top bx)).
    Proof.
      pose proof (upto_integral K (le_n K)) as H.
      assert (E0 : xk 0 = b_left bx) by (unfold xk, cw; apply knots_first; assumption).
      assert (EK : xk K = b_right bx) by (unfold xk, cw; apply knots_last; assumption).
      assert (F0 : yk 0 = b_bottom bx) by (unfold yk, ch; apply knots_first; apply uh_ne).
      assert (FK : yk K = b_top bx) by (unfold yk, ch; rewrite <- Hlh; apply knots_last; apply uh_ne).
      rewrite E0, EK, F0, FK in H. exact H.
    Qed.
  End Integral.
End Whole.

(* the side conditions under which the code accepts a configuration, bundled *)
Definition rq_wellformed (c : @rq_cfg R) (bx : @box R) (uw uh ud : list R) : Prop :=
  uw <> [] /\ length uh = length uw /\ length ud = S (length uw) /\
  0 <= min_bin_width c /\ min_bin_width c * INR (length uw) <= 1 /\
  0 <= min_bin_height c /\ min_bin_height c * INR (length uw) <= 1 /\
  0 <= min_derivative c /\ 0 < rq_beta Rops c /\ b_left bx < b_right bx /\ b_bottom bx < b_top bx.

(* they hold for the library's default configuration, any box, any bin count up to 1000 and ANY unnormalised parameters *)
Lemma default_wellformed (bx : @box R) (uw uh ud : list R) :
  (0 < length uw <= 1000)%nat -> length uh = length uw -> length ud = S (length uw) ->
  b_left bx < b_right bx -> b_bottom bx < b_top bx -> rq_wellformed (rq_default_cfg Rops) bx uw uh ud.
Proof.
  intros [H0 H1] Hh Hd Hlr Hbt.
  assert (HI : INR (length uw) <= 1000).
  { apply le_INR in H1. rewrite (INR_IZR_INZ 1000) in H1. change (Z.of_nat 1000) with 1000%Z in H1. exact H1. }
  assert (HP : 0 <= INR (length uw)) by apply pos_INR.
  unfold rq_wellformed, rq_default_cfg, rq_beta. cbn [min_bin_width min_bin_height min_derivative identity_init].
  unfold rq_DEFAULT_MIN_BIN_WIDTH, rq_DEFAULT_MIN_BIN_HEIGHT, rq_DEFAULT_MIN_DERIVATIVE, rq_beta_default, o_lit.
  cbn [o_div o_ofZ o_mul Rops].
  repeat split; try assumption; try lra; try nra.
  intro E. rewrite E in H0. simpl in H0. lia.
Qed.
