(* Pairing lemmas for the row-layout programs generated from Flow._sample / sample_and_log_prob and
   ConditionalDiagonalNormal._sample. *)
From Coq Require Import List Arith Lia.
From NF Require Import Model.Utils Model.FlowSample Model.RowLayout Proofs.UtilsP.
Import ListNotations.

Lemma rep_rows_length {A} (n : nat) (l : list A) : length (rep_rows n l) = length l * n.
Proof. unfold rep_rows. apply flat_map_repeat_length. Qed.

Lemma rep_rows_nth {A} (n : nat) (l : list A) (d : A) i j : j < n -> nth (i * n + j) (rep_rows n l) d = nth i l d.
Proof. intros Hj. unfold rep_rows. apply nth_flat_map_repeat. exact Hj. Qed.

Lemma zip_with_length {A B D} (f : A -> B -> D) a b : length (zip_with f a b) = Nat.min (length a) (length b).
Proof. revert b. induction a as [|x a IH]; intros [|y b]; cbn [zip_with length]; try reflexivity. rewrite IH. reflexivity. Qed.

Lemma zip_with_nth {A B D} (f : A -> B -> D) a b da db dd i :
  i < length a -> i < length b -> nth i (zip_with f a b) dd = f (nth i a da) (nth i b db).
Proof.
  revert b i. induction a as [|x a IH]; intros [|y b] i Ha Hb; cbn [length] in *; try lia.
  destruct i as [|i]; [reflexivity|]. cbn [zip_with nth]. apply IH; lia.
Qed.

Lemma skipn_add {A} (a b : nat) (l : list A) : skipn a (skipn b l) = skipn (b + a) l.
Proof. revert l. induction b as [|b IH]; intros l; [reflexivity|]. destruct l as [|x l]; [destruct a; reflexivity|]. cbn [skipn Nat.add]. apply IH. Qed.

Lemma nth_firstn_lt' {A} (m j : nat) (l : list A) d : j < m -> nth j (firstn m l) d = nth j l d.
Proof.
  revert j l. induction m as [|m IH]; intros j l Hj; [lia|]. destruct l as [|x l]; [destruct j; reflexivity|].
  destruct j as [|j]; [reflexivity|]. cbn [firstn nth]. apply IH. lia.
Qed.

Lemma chunks_nth {A} (m k : nat) (l : list A) i : i < k -> nth i (chunks m k l) [] = firstn m (skipn (i * m) l).
Proof.
  revert l i. induction k as [|k IH]; intros l i Hi; [lia|]. cbn [chunks]. destruct i as [|i]; [reflexivity|].
  cbn [nth]. rewrite IH by lia. rewrite skipn_add. f_equal.
Qed.

Lemma nth_firstn_skipn {A} (m s j : nat) (l : list A) d : j < m -> nth j (firstn m (skipn s l)) d = nth (s + j) l d.
Proof.
  intros Hj. rewrite nth_firstn_lt' by exact Hj. revert l. induction s as [|s IH]; intros l; [reflexivity|].
  destruct l as [|a l]; [destruct j; reflexivity|]. cbn [skipn Nat.add nth]. apply IH.
Qed.

(* entry [i][j] of a batch that was split into k blocks of n rows is row i * n + j *)
Lemma chunks_entry {A} (n k : nat) (l : list A) d i j : i < k -> j < n -> nth j (nth i (chunks n k l) []) d = nth (i * n + j) l d.
Proof. intros Hi Hj. rewrite chunks_nth by exact Hi. apply nth_firstn_skipn. exact Hj. Qed.

(* ---- the shape of the generated sampling programs ---- *)
Section Programs.
  Context {T : Type} (add mul : T -> T -> T).

  (* ConditionalDiagonalNormal._sample as generated: parameters repeated row-wise, combined with the noise, split into blocks *)
  Definition cdn_program (means stds noise : list (list T)) (k n : nat) : list (list (list T)) :=
    chunks n k (rows_zip add (rep_rows n means) (rows_zip mul (rep_rows n stds) noise)).

  (* draw j of block i uses the parameters of context row i and noise row i * n + j - never another row's parameters *)
  Theorem cdn_program_pairing (means stds noise : list (list T)) (k n i j : nat) :
    length means = k -> length stds = k -> length noise = k * n -> i < k -> j < n ->
    nth j (nth i (cdn_program means stds noise k n) []) []
    = zip_with add (nth i means []) (zip_with mul (nth i stds []) (nth (i * n + j) noise [])).
  Proof.
    intros Hm Hs Hz Hi Hj. unfold cdn_program. rewrite chunks_entry by assumption. unfold rows_zip.
    assert (Hidx : i * n + j < k * n) by nia.
    rewrite (zip_with_nth _ _ _ [] [] []).
    - rewrite rep_rows_nth by exact Hj. f_equal. rewrite (zip_with_nth _ _ _ [] [] []).
      + rewrite rep_rows_nth by exact Hj. reflexivity.
      + rewrite rep_rows_length, Hs. exact Hidx.
      + rewrite Hz. exact Hidx.
    - rewrite rep_rows_length, Hm. exact Hidx.
    - rewrite zip_with_length, rep_rows_length, Hs, Hz, Nat.min_id. exact Hidx.
  Qed.
End Programs.

Section FlowProgram.
  Context {ZT CT XT : Type} (inv : ZT -> CT -> XT).

  (* Flow._sample as generated (with a context): merge, repeat the context rows, invert row by row, split *)
  Definition flow_program (n : nat) (noise : list (list ZT)) (ctx : list CT) : list (list XT) :=
    let merged := concat noise in
    let rep := rep_rows n ctx in
    let samples := zip_with inv merged rep in
    chunks n (length samples / n) samples.

  Theorem flow_program_is_the_model (n : nat) (noise : list (list ZT)) (ctx : list CT) :
    0 < n -> length noise = length ctx -> List.Forall (fun row => length row = n) noise ->
    flow_program n noise ctx = flow_sample inv n noise ctx.
  Proof.
    intros Hn Hl Hf. unfold flow_program, flow_sample. cbv zeta. fold (rep_rows n ctx).
    assert (Hc : length (concat noise) = length ctx * n).
    { rewrite <- Hl. clear Hl. induction noise as [|r rs IH]; [reflexivity|]. inversion Hf; subst. cbn [concat length].
      rewrite app_length, IH by assumption. lia. }
    rewrite zip_with_length, Hc, rep_rows_length, Nat.min_id. rewrite Nat.div_mul by lia. reflexivity.
  Qed.
End FlowProgram.
