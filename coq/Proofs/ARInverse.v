(* The inverse of an autoregressive transform by repeated passes (AutoregressiveTransform.inverse):
   with an autoregressive conditioner (C06) and an invertible elementwise kernel, after t passes the
   first t coordinates are exact, so D passes recover the whole pre-image.  Axiom-free. *)
From Coq Require Import Arith Lia.

Section AR.
  Variables (T P L : Type).
  Variable net : (nat -> T) -> nat -> P.          (* parameters of feature i from the (partial) inputs *)
  Variables (k kinv : P -> T -> T).               (* elementwise kernel and its inverse *)
  Variable klad : P -> T -> L.                    (* log-det of the inverse kernel at (params, value) *)
  Hypothesis net_autoregressive : forall i x x', (forall j, j < i -> x j = x' j) -> net x i = net x' i.
  Hypothesis kinv_k : forall p v, kinv p (k p v) = v.

  Definition ar_forward (x : nat -> T) : nat -> T := fun i => k (net x i) (x i).
  Definition ar_pass (y z : nat -> T) : nat -> T := fun i => kinv (net z i) (y i).
  Fixpoint ar_iter (t : nat) (y z0 : nat -> T) : nat -> T :=
    match t with O => z0 | S m => ar_pass y (ar_iter m y z0) end.

  Theorem ar_prefix_exact x z0 : forall t i, i < t -> ar_iter t (ar_forward x) z0 i = x i.
  Proof.
    induction t as [|t IH]; intros i Hi; [lia|]. cbn [ar_iter]. unfold ar_pass.
    assert (E : net (ar_iter t (ar_forward x) z0) i = net x i).
    { apply net_autoregressive. intros j Hj. apply IH. lia. }
    rewrite E. unfold ar_forward. apply kinv_k.
  Qed.

  Corollary ar_inverse_exact D x z0 i : i < D -> ar_iter D (ar_forward x) z0 i = x i.
  Proof. apply ar_prefix_exact. Qed.

  (* the parameters (hence the log-det) used in the last of D >= 1 passes are those of the true pre-image *)
  Corollary ar_last_pass_params D x z0 i : i < S D -> net (ar_iter D (ar_forward x) z0) i = net x i.
  Proof. intros Hi. apply net_autoregressive. intros j Hj. apply ar_prefix_exact. lia. Qed.
End AR.
