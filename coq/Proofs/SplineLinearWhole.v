(* The whole piecewise-linear spline, forward direction (Model/SplineLinear.v over the generated formulas): for ANY unnormalised
   pdf and any non-degenerate box, every input of [left, right] is accepted, lands in a bin found by the floor of its bin
   position, and the map is a strictly increasing function onto [bottom, top] with pinned end points whose log-abs-det is the
   logarithm of the positive slope of the bin. *)
From Coq Require Import Reals ZArith List Bool Arith Lia Lra Sorted.
From Coquelicot Require Import Coquelicot.
From NF Require Import Base.Ops Base.Rops Base.Result Gen.Utils Gen.SplineLinear Model.Utils Model.Vec Model.SplineRQ Model.SplineLinear
  Proofs.VecR Proofs.SplineLQP Proofs.UtilsR.
Import ListNotations.
Open Scope R_scope.

Lemma floor_spec (x : R) : IZR (up x - 1) <= x < IZR (up x - 1) + 1.
Proof. destruct (archimed x) as [A B]. rewrite minus_IZR. lra. Qed.

Section LinWhole.
  Variables (bx : @box R) (u : list R).
  Let K := length u.
  Hypothesis (Hne : u <> []) (Hlr : b_left bx < b_right bx) (Hbt : b_bottom bx < b_top bx).
  Let pdf := lin_pdf Rops u.

  Lemma Kpos : (0 < K)%nat.
  Proof. unfold K. assert (length u <> 0%nat) by (intro E; apply length_zero_iff_nil in E; exact (Hne E)). lia. Qed.

  Lemma pdf_length : length pdf = K.
  Proof. unfold pdf, lin_pdf. apply softmax_length. Qed.

  Lemma pdf_pos : List.Forall (fun v => 0 < v) pdf.
  Proof. unfold pdf, lin_pdf. apply softmax_pos. exact Hne. Qed.

  Lemma pdf_sum : vsumR pdf = 1.
  Proof. unfold pdf, lin_pdf. apply softmax_sum. exact Hne. Qed.

  Lemma pdf_nth_pos k : (k < K)%nat -> 0 < nth k pdf 0.
  Proof. intros Hk. pose proof pdf_pos as P. rewrite Forall_forall in P. apply P. apply nth_In. rewrite pdf_length. exact Hk. Qed.

  (* cdf = 0 :: cumsum with the last entry pinned to 1 = the partial sums of the pdf *)
  Lemma cdf_nth k : (k <= K)%nat -> nthT Rops k (lin_cdf Rops u) = psum pdf k.
  Proof.
    intros Hk. unfold nthT, lin_cdf. cbn [o_zero o_ofZ Rops]. fold pdf.
    assert (Hc : cumsum Rops pdf <> []).
    { intro E. apply (f_equal (@length R)) in E. rewrite cumsum_length, pdf_length in E. simpl in E. pose proof Kpos. lia. }
    rewrite (set_last_same 1 (cumsum Rops pdf)).
    - apply zcumsum_nth. rewrite pdf_length. exact Hk.
    - rewrite last_nth, cumsum_length, pdf_length. rewrite cumsum_nth by (rewrite pdf_length; pose proof Kpos; lia).
      replace (S (K - 1)) with K by (pose proof Kpos; lia). rewrite <- pdf_length, psum_all. apply pdf_sum.
    - exact Hc.
  Qed.

  Lemma psum_le_1 k : (k <= K)%nat -> 0 <= psum pdf k <= 1.
  Proof.
    intros Hk. split.
    - destruct k as [|k]; [rewrite psum_0; lra|]. rewrite <- (psum_0 pdf). left. apply psum_lt; [apply pdf_pos | lia | rewrite pdf_length; exact Hk].
    - destruct (Nat.eq_dec k K) as [->|Hn].
      + rewrite <- pdf_length, psum_all, pdf_sum. lra.
      + replace 1 with (psum pdf K) by (rewrite <- pdf_length, psum_all; apply pdf_sum). left.
        apply psum_lt; [apply pdf_pos | lia | rewrite pdf_length; lia].
  Qed.

  (* the bin of a normalised position *)
  Definition bin_of (xn : R) : nat :=
    let kz := (up (xn * INR K) - 1)%Z in if Z.leb (Z.of_nat K) kz then (K - 1)%nat else Z.to_nat kz.

  Lemma bin_of_spec xn : 0 <= xn <= 1 ->
    (bin_of xn < K)%nat /\ INR (bin_of xn) <= xn * INR K <= INR (bin_of xn) + 1 /\
    (xn * INR K < INR (bin_of xn) + 1 \/ S (bin_of xn) = K).
  Proof.
    intros [H0 H1]. pose proof Kpos as KP. assert (HK : 0 < INR K) by (apply lt_0_INR; exact KP).
    unfold bin_of. cbv zeta. destruct (floor_spec (xn * INR K)) as [F1 F2]. set (kz := (up (xn * INR K) - 1)%Z) in *.
    assert (Hpos : 0 <= xn * INR K <= INR K) by nra.
    assert (Hkz0 : (0 <= kz)%Z).
    { destruct (Z_lt_le_dec kz 0) as [L|L]; [|exact L]. exfalso. assert (IZR kz <= -1) by (apply IZR_le; lia). lra. }
    destruct (Z.leb (Z.of_nat K) kz) eqn:E.
    - apply Z.leb_le in E. assert (Hge : INR K <= IZR kz) by (rewrite INR_IZR_INZ; apply IZR_le; exact E).
      assert (Epos : xn * INR K = INR K) by lra.
      split; [lia|]. replace (INR (K - 1)) with (INR K - 1) by (rewrite minus_INR by lia; simpl; lra).
      split; [lra|]. right. lia.
    - apply Z.leb_gt in E. rewrite INR_IZR_INZ, Z2Nat.id by exact Hkz0.
      split; [apply Nat2Z.inj_lt; rewrite Z2Nat.id by exact Hkz0; exact E|]. split; [lra|]. left. lra.
  Qed.

  (* the interpolated cdf on normalised positions *)
  Definition G (xn : R) : R := let k := bin_of xn in psum pdf k + (xn * INR K - INR k) * nth k pdf 0.

  Lemma G_range xn : 0 <= xn <= 1 -> psum pdf (bin_of xn) <= G xn <= psum pdf (S (bin_of xn)).
  Proof.
    intros Hx. destruct (bin_of_spec xn Hx) as [Hk [[A B] _]]. unfold G. cbv zeta.
    rewrite psum_S by (rewrite pdf_length; exact Hk). pose proof (pdf_nth_pos _ Hk) as P. nra.
  Qed.

  Lemma G_increasing a b : 0 <= a -> a < b -> b <= 1 -> G a < G b.
  Proof.
    intros Ha Hab Hb. pose proof Kpos as KP. assert (HK : 0 < INR K) by (apply lt_0_INR; exact KP).
    destruct (bin_of_spec a ltac:(lra)) as [Hka [[A1 A2] A3]]. destruct (bin_of_spec b ltac:(lra)) as [Hkb [[B1 B2] B3]].
    pose proof (G_range a ltac:(lra)) as [GA1 GA2]. pose proof (G_range b ltac:(lra)) as [GB1 GB2].
    destruct (lt_eq_lt_dec (bin_of a) (bin_of b)) as [[L|E]|L].
    - (* an earlier bin *)
      assert (Hstrict : G a < psum pdf (S (bin_of a))).
      { destruct A3 as [A3|A3]; [|lia]. unfold G. cbv zeta. rewrite psum_S by (rewrite pdf_length; exact Hka).
        pose proof (pdf_nth_pos _ Hka) as P. nra. }
      assert (psum pdf (S (bin_of a)) <= psum pdf (bin_of b)).
      { destruct (Nat.eq_dec (S (bin_of a)) (bin_of b)) as [->|N]; [lra|]. left. apply psum_lt; [apply pdf_pos | lia | rewrite pdf_length; lia]. }
      lra.
    - unfold G. cbv zeta. rewrite E. pose proof (pdf_nth_pos _ Hkb) as P. assert (a * INR K < b * INR K) by nra. nra.
    - exfalso. assert (INR (bin_of b) + 1 <= INR (bin_of a)).
      { rewrite <- S_INR. apply le_INR. lia. }
      assert (a * INR K < b * INR K) by nra. lra.
  Qed.

  (* the model on an input of the box *)
  Definition xnorm (x : R) : R := (x - b_left bx) / (b_right bx - b_left bx).

  Lemma xnorm_range x : b_left bx <= x <= b_right bx -> 0 <= xnorm x <= 1.
  Proof.
    intros [A B]. unfold xnorm. split.
    - apply Rmult_le_pos; [lra | left; apply Rinv_0_lt_compat; lra].
    - apply (Rmult_le_reg_r (b_right bx - b_left bx)); [lra|]. unfold Rdiv. rewrite Rmult_assoc, Rinv_l by lra. lra.
  Qed.

  Theorem linear_forward x : b_left bx <= x <= b_right bx ->
    let k := bin_of (xnorm x) in
    linear_spline Rops false bx u x
    = Ok (G (xnorm x) * (b_top bx - b_bottom bx) + b_bottom bx,
          ln (INR K * nth k pdf 0) + ln (b_top bx - b_bottom bx) - ln (b_right bx - b_left bx)).
  Proof.
    intros Hx. cbv zeta. pose proof (xnorm_range x Hx) as Hn. destruct (bin_of_spec _ Hn) as [Hk [[A B] _]].
    pose proof Kpos as KP. assert (HK : 0 < INR K) by (apply lt_0_INR; exact KP).
    unfold linear_spline. cbn [lin_bounds]. unfold lin_rejects. cbn [o_ltb Rops].
    assert (R1 : Rltb x (b_left bx) = false) by (apply Rltb_false; lra).
    assert (R2 : Rltb (b_right bx) x = false) by (apply Rltb_false; lra).
    rewrite R1, R2. cbn [orb]. fold K.
    unfold lin_fwd_normalise_inputs, lin_fwd_bin_pos. cbn [Rops o_div o_sub o_mul o_ofZ o_floor]. fold (xnorm x).
    rewrite <- INR_IZR_INZ. fold (bin_of (xnorm x)). fold pdf.
    set (k := bin_of (xnorm x)) in *.
    rewrite (cdf_nth k) by lia. unfold nthT. cbn [o_zero Rops].
    unfold lin_fwd_denormalise_outputs, lin_fwd_denormalise_logabsdet. cbn [Rops o_add o_mul o_sub o_ln].
    rewrite <- INR_IZR_INZ.
    pose proof (pdf_nth_pos k Hk) as P. pose proof (psum_le_1 k ltac:(lia)) as [C0 C1]. pose proof (psum_le_1 (S k) ltac:(lia)) as [D0 D1].
    rewrite psum_S in D1 by (rewrite pdf_length; exact Hk).
    rewrite (lin_fwd_outputs_eq (INR K) (INR k) (nth k pdf 0) (psum pdf k)).
    - rewrite (lin_lad_is_ln_slope (INR K) (INR k) (nth k pdf 0) (psum pdf k) HK P). unfold lin_raw, G. cbv zeta. fold k. reflexivity.
    - unfold lin_raw. nra.
  Qed.

  Definition FL (x : R) : R := match linear_spline Rops false bx u x with Ok (y, _) => y | _ => 0 end.

  Lemma xnorm_increasing a b : a < b -> xnorm a < xnorm b.
  Proof.
    intros H. unfold xnorm. apply Rmult_lt_compat_r; [apply Rinv_0_lt_compat; lra | lra].
  Qed.

  Lemma G_0 : G 0 = 0.
  Proof.
    destruct (bin_of_spec 0 ltac:(lra)) as [Hk [[A B] C]]. unfold G. cbv zeta.
    assert (E : bin_of 0 = 0%nat).
    { rewrite Rmult_0_l in A. destruct (bin_of 0) as [|k]; [reflexivity|]. exfalso. rewrite S_INR in A. pose proof (pos_INR k). lra. }
    rewrite E. rewrite psum_0. simpl. lra.
  Qed.

  Lemma G_1 : G 1 = 1.
  Proof.
    pose proof Kpos as KP. destruct (bin_of_spec 1 ltac:(lra)) as [Hk [[A B] C]]. rewrite Rmult_1_l in A, B, C.
    assert (E : S (bin_of 1) = K).
    { destruct C as [C|C]; [|exact C]. exfalso.
      assert (INR (S (bin_of 1)) <= INR K) by (apply le_INR; lia). rewrite S_INR in H.
      assert (INR K < INR (bin_of 1) + 1) by lra.
      assert (bin_of 1 + 1 <= K)%nat by lia. apply le_INR in H1. rewrite plus_INR in H1. simpl in H1. lra. }
    unfold G. cbv zeta. rewrite Rmult_1_l.
    assert (EK : INR K = INR (bin_of 1) + 1) by (rewrite <- E, S_INR; reflexivity).
    rewrite EK. replace (INR (bin_of 1) + 1 - INR (bin_of 1)) with 1 by lra. rewrite Rmult_1_l.
    rewrite <- psum_S by (rewrite pdf_length; exact Hk). rewrite E. rewrite <- pdf_length, psum_all. apply pdf_sum.
  Qed.

  Theorem linear_whole : 
    (forall x, b_left bx <= x <= b_right bx ->
       exists y l, linear_spline Rops false bx u x = Ok (y, l) /\ (b_bottom bx <= y <= b_top bx) /\ (exists d, 0 < d /\ l = ln d)) /\
    (FL (b_left bx) = b_bottom bx /\ FL (b_right bx) = b_top bx) /\
    (forall a b, b_left bx <= a -> a < b -> b <= b_right bx -> FL a < FL b).
  Proof.
    pose proof Kpos as KP. assert (HK : 0 < INR K) by (apply lt_0_INR; exact KP).
    split; [|split].
    - intros x Hx. pose proof (linear_forward x Hx) as E. cbv zeta in E. eexists. eexists. split; [exact E|].
      pose proof (xnorm_range x Hx) as Hn. destruct (bin_of_spec _ Hn) as [Hk _]. pose proof (G_range _ Hn) as [A B].
      pose proof (psum_le_1 (bin_of (xnorm x)) ltac:(lia)) as [C0 _]. pose proof (psum_le_1 (S (bin_of (xnorm x))) ltac:(lia)) as [_ D1].
      split; [nra|]. pose proof (pdf_nth_pos _ Hk) as P.
      set (sl := INR K * nth (bin_of (xnorm x)) pdf 0). assert (Hsl : 0 < sl) by (unfold sl; apply Rmult_lt_0_compat; assumption).
      exists (sl * (b_top bx - b_bottom bx) / (b_right bx - b_left bx)). split.
      + apply Rdiv_lt_0_compat; [|lra]. apply Rmult_lt_0_compat; [exact Hsl | lra].
      + unfold Rdiv. rewrite ln_mult; [| apply Rmult_lt_0_compat; [exact Hsl | lra] | apply Rinv_0_lt_compat; lra].
        rewrite ln_mult; [| exact Hsl | lra]. rewrite ln_Rinv by lra. lra.
    - split.
      + unfold FL. rewrite (linear_forward (b_left bx)) by lra. cbv zeta.
        replace (xnorm (b_left bx)) with 0 by (unfold xnorm; field; lra). rewrite G_0. lra.
      + unfold FL. rewrite (linear_forward (b_right bx)) by lra. cbv zeta.
        replace (xnorm (b_right bx)) with 1 by (unfold xnorm; field; lra). rewrite G_1. lra.
    - intros a b Ha Hab Hb. unfold FL. rewrite (linear_forward a) by lra. rewrite (linear_forward b) by lra. cbv zeta.
      pose proof (xnorm_range a ltac:(lra)) as [A0 A1]. pose proof (xnorm_range b ltac:(lra)) as [B0 B1].
      assert (G (xnorm a) < G (xnorm b)) by (apply G_increasing; [lra | apply xnorm_increasing; exact Hab | lra]). nra.
  Qed.

  (* ---- the inverse direction: searchsorted on the cumulative table, then the bin's line solved for x ---- *)
  Lemma cdf_list_eq : lin_cdf Rops u = 0 :: cumsum Rops pdf.
  Proof.
    unfold lin_cdf. cbn [o_zero o_ofZ Rops]. fold pdf. f_equal. apply set_last_same.
    - rewrite last_nth, cumsum_length, pdf_length. rewrite cumsum_nth by (rewrite pdf_length; pose proof Kpos; lia).
      replace (S (K - 1)) with K by (pose proof Kpos; lia). rewrite <- pdf_length, psum_all. apply pdf_sum.
    - intro E. apply (f_equal (@length R)) in E. rewrite cumsum_length, pdf_length in E. simpl in E. pose proof Kpos. lia.
  Qed.

  Lemma cdf_list_length : length (lin_cdf Rops u) = S K.
  Proof. rewrite cdf_list_eq. cbn [length]. rewrite cumsum_length, pdf_length. reflexivity. Qed.

  Lemma cdf_list_nth k : (k <= K)%nat -> nth k (lin_cdf Rops u) 0 = psum pdf k.
  Proof. intros Hk. exact (cdf_nth k Hk). Qed.

  Lemma cdf_sorted : StronglySorted Rlt (lin_cdf Rops u).
  Proof.
    apply sorted_of_nth. intros i j Hij Hj. rewrite cdf_list_length in Hj. rewrite !cdf_list_nth by lia.
    apply psum_lt; [apply pdf_pos | exact Hij | rewrite pdf_length; lia].
  Qed.

  Definition ynorm (y : R) : R := (y - b_bottom bx) / (b_top bx - b_bottom bx).

  Lemma ynorm_range y : b_bottom bx <= y <= b_top bx -> 0 <= ynorm y <= 1.
  Proof.
    intros [A B]. unfold ynorm. split.
    - apply Rmult_le_pos; [lra | left; apply Rinv_0_lt_compat; lra].
    - apply (Rmult_le_reg_r (b_top bx - b_bottom bx)); [lra|]. unfold Rdiv. rewrite Rmult_assoc, Rinv_l by lra. lra.
  Qed.

  (* the normalised pre-image inside bin k *)
  Definition Ginv (k : nat) (yn : R) : R := INR k / INR K + (yn - psum pdf k) / (INR K * nth k pdf 0).

  Lemma Ginv_range k yn : (k < K)%nat -> psum pdf k <= yn <= psum pdf (S k) ->
    INR k / INR K <= Ginv k yn <= INR (S k) / INR K /\ 0 <= Ginv k yn <= 1.
  Proof.
    intros Hk [A B]. pose proof Kpos as KP. assert (HK : 0 < INR K) by (apply lt_0_INR; exact KP).
    pose proof (pdf_nth_pos k Hk) as P. rewrite psum_S in B by (rewrite pdf_length; exact Hk).
    assert (HKp : 0 < INR K * nth k pdf 0) by (apply Rmult_lt_0_compat; assumption).
    assert (Q0 : 0 <= (yn - psum pdf k) / (INR K * nth k pdf 0)).
    { apply Rmult_le_pos; [lra | left; apply Rinv_0_lt_compat; exact HKp]. }
    assert (Q1 : (yn - psum pdf k) / (INR K * nth k pdf 0) <= 1 / INR K).
    { apply (Rmult_le_reg_r (INR K * nth k pdf 0)); [exact HKp|]. unfold Rdiv. rewrite Rmult_assoc, Rinv_l by lra.
      replace (1 * / INR K * (INR K * nth k pdf 0)) with (nth k pdf 0) by (field; lra). lra. }
    assert (E : INR (S k) / INR K = INR k / INR K + 1 / INR K) by (rewrite S_INR; field; lra).
    unfold Ginv. split; [rewrite E; lra|].
    assert (0 <= INR k / INR K) by (apply Rmult_le_pos; [apply pos_INR | left; apply Rinv_0_lt_compat; exact HK]).
    assert (INR (S k) / INR K <= 1).
    { apply (Rmult_le_reg_r (INR K)); [exact HK|]. unfold Rdiv. rewrite Rmult_assoc, Rinv_l by lra. rewrite Rmult_1_r, Rmult_1_l. apply le_INR. lia. }
    rewrite E in H0. lra.
  Qed.

  Lemma lin_inv_outputs_eq k yn : (k < K)%nat -> psum pdf k <= yn <= psum pdf (S k) ->
    lin_inv_outputs Rops yn (psum pdf k) (psum pdf (S k)) (lin_boundary Rops K k) (lin_boundary Rops K (S k)) = Ginv k yn /\
    lin_inv_logabsdet Rops yn (psum pdf k) (psum pdf (S k)) (lin_boundary Rops K k) (lin_boundary Rops K (S k)) = - ln (INR K * nth k pdf 0).
  Proof.
    intros Hk Hy. pose proof Kpos as KP. assert (HK : 0 < INR K) by (apply lt_0_INR; exact KP).
    pose proof (pdf_nth_pos k Hk) as P. destruct (Ginv_range k yn Hk Hy) as [_ Hr].
    unfold lin_inv_outputs, lin_inv_logabsdet, lin_boundary. cbn [Rops o_div o_sub o_mul o_ofZ o_neg o_ln].
    rewrite <- !INR_IZR_INZ. rewrite psum_S by (rewrite pdf_length; exact Hk). rewrite S_INR.
    assert (Es : (psum pdf k + nth k pdf 0 - psum pdf k) / ((INR k + 1) / INR K - INR k / INR K) = INR K * nth k pdf 0) by (field; lra).
    rewrite Es. split; [|reflexivity].
    replace ((yn - (psum pdf k + nth k pdf 0 - INR K * nth k pdf 0 * ((INR k + 1) / INR K))) / (INR K * nth k pdf 0)) with (Ginv k yn)
      by (unfold Ginv; field; lra).
    change (IZR 0) with 0. change (IZR 1) with 1. apply clamp01_id. exact Hr.
  Qed.

  Theorem linear_inverse y : b_bottom bx <= y <= b_top bx ->
    exists k, (k < K)%nat /\ psum pdf k <= ynorm y /\ (ynorm y < psum pdf (S k) \/ S k = K) /\ ynorm y <= psum pdf (S k) /\
      linear_spline Rops true bx u y
      = Ok (Ginv k (ynorm y) * (b_right bx - b_left bx) + b_left bx,
            - ln (INR K * nth k pdf 0) + ln (b_right bx - b_left bx) - ln (b_top bx - b_bottom bx)).
  Proof.
    intros Hy. pose proof (ynorm_range y Hy) as Hn. pose proof Kpos as KP.
    assert (H0 : nth 0 (lin_cdf Rops u) 0 = 0) by (rewrite cdf_list_nth by lia; apply psum_0).
    assert (H1 : nth K (lin_cdf Rops u) 0 = 1) by (rewrite cdf_list_nth by lia; rewrite <- pdf_length, psum_all; apply pdf_sum).
    destruct (searchsorted_spec (lin_cdf Rops u) (ynorm y) K cdf_list_length KP cdf_sorted) as [k [Ek [HkK [Hge Hlt]]]]; [rewrite H0, H1; exact Hn|].
    rewrite cdf_list_nth in Hge by lia. rewrite cdf_list_nth in Hlt by lia.
    exists k. split; [exact HkK|]. split; [exact Hge|]. split; [exact Hlt|].
    assert (Hle : ynorm y <= psum pdf (S k)).
    { destruct Hlt as [L|E]; [lra|]. rewrite E. rewrite <- pdf_length, psum_all, pdf_sum. lra. }
    split; [exact Hle|].
    unfold linear_spline. cbn [lin_bounds]. unfold lin_rejects. cbn [o_ltb Rops].
    assert (R1 : Rltb y (b_bottom bx) = false) by (apply Rltb_false; lra).
    assert (R2 : Rltb (b_top bx) y = false) by (apply Rltb_false; lra).
    rewrite R1, R2. cbn [orb]. fold K.
    unfold lin_inv_normalise_inputs. cbn [Rops o_div o_sub]. fold (ynorm y).
    rewrite Ek, Nat2Z.id. assert (R5 : Nat.leb K k = false) by (apply Nat.leb_gt; exact HkK). rewrite R5.
    rewrite (cdf_nth k) by lia. rewrite (cdf_nth (S k)) by lia.
    destruct (lin_inv_outputs_eq k (ynorm y) HkK (conj Hge Hle)) as [E1 E2]. rewrite E1, E2.
    unfold lin_inv_denormalise_outputs, lin_inv_denormalise_logabsdet. cbn [Rops o_add o_mul o_sub o_ln]. reflexivity.
  Qed.

  Definition FLlad (x : R) : R := match linear_spline Rops false bx u x with Ok (_, l) => l | _ => 0 end.

  (* forward (inverse y) = y with the negated log-abs-det: every value of [bottom, top] is attained at the point the inverse returns *)
  Theorem linear_forward_of_inverse y : b_bottom bx <= y <= b_top bx ->
    exists x l, linear_spline Rops true bx u y = Ok (x, l) /\ (b_left bx <= x <= b_right bx) /\ FL x = y /\ l = - FLlad x.
  Proof.
    intros Hy. destruct (linear_inverse y Hy) as [k [Hk [Hge [Hlt [Hle E]]]]].
    pose proof Kpos as KP. assert (HK : 0 < INR K) by (apply lt_0_INR; exact KP).
    pose proof (pdf_nth_pos k Hk) as P. destruct (Ginv_range k (ynorm y) Hk (conj Hge Hle)) as [[Ga Gb] [G0 G1]].
    set (xn := Ginv k (ynorm y)) in *. set (x := xn * (b_right bx - b_left bx) + b_left bx).
    assert (Hx : b_left bx <= x <= b_right bx) by (unfold x; split; nra).
    assert (Exn : xnorm x = xn) by (unfold xnorm, x; field; lra).
    exists x, (- ln (INR K * nth k pdf 0) + ln (b_right bx - b_left bx) - ln (b_top bx - b_bottom bx)).
    split; [exact E|]. split; [exact Hx|].
    (* the bin of the pre-image: k, or the point is 1 *)
    assert (HG : G xn = ynorm y /\ nth (bin_of xn) pdf 0 = nth k pdf 0).
    { destruct (bin_of_spec xn (conj G0 G1)) as [Hb [[B1 B2] B3]].
      assert (Exk : xn * INR K = INR k + (ynorm y - psum pdf k) / nth k pdf 0) by (unfold xn, Ginv; field; lra).
      destruct Hlt as [Hlt|ElastK].
      - (* strictly inside the output bin: the position is strictly below (k+1)/K, so its bin is k *)
        assert (Hq : (ynorm y - psum pdf k) / nth k pdf 0 < 1).
        { rewrite psum_S in Hlt by (rewrite pdf_length; exact Hk).
          apply (Rmult_lt_reg_r (nth k pdf 0)); [exact P|]. unfold Rdiv. rewrite Rmult_assoc, Rinv_l by lra. lra. }
        assert (Hq0 : 0 <= (ynorm y - psum pdf k) / nth k pdf 0) by (apply Rmult_le_pos; [lra | left; apply Rinv_0_lt_compat; exact P]).
        assert (Eb : bin_of xn = k).
        { destruct (lt_eq_lt_dec (bin_of xn) k) as [[L|Eq]|L]; [exfalso | exact Eq | exfalso].
          - assert (INR (bin_of xn) + 1 <= INR k) by (rewrite <- S_INR; apply le_INR; lia). destruct B3 as [B3|B3]; [lra | lia].
          - assert (INR k + 1 <= INR (bin_of xn)) by (rewrite <- S_INR; apply le_INR; lia). lra. }
        split; [|rewrite Eb; reflexivity]. unfold G. cbv zeta. rewrite Eb, Exk. field. lra.
      - (* the last bin *)
        destruct (Rle_lt_or_eq_dec _ _ Hle) as [L|Eq].
        + assert (Hq : (ynorm y - psum pdf k) / nth k pdf 0 < 1).
          { rewrite psum_S in L by (rewrite pdf_length; exact Hk).
            apply (Rmult_lt_reg_r (nth k pdf 0)); [exact P|]. unfold Rdiv. rewrite Rmult_assoc, Rinv_l by lra. lra. }
          assert (Hq0 : 0 <= (ynorm y - psum pdf k) / nth k pdf 0) by (apply Rmult_le_pos; [lra | left; apply Rinv_0_lt_compat; exact P]).
          assert (Eb : bin_of xn = k).
          { destruct (lt_eq_lt_dec (bin_of xn) k) as [[L'|Eq]|L']; [exfalso | exact Eq | exfalso].
            - assert (INR (bin_of xn) + 1 <= INR k) by (rewrite <- S_INR; apply le_INR; lia). destruct B3 as [B3|B3]; [lra | lia].
            - assert (INR k + 1 <= INR (bin_of xn)) by (rewrite <- S_INR; apply le_INR; lia). lra. }
          split; [|rewrite Eb; reflexivity]. unfold G. cbv zeta. rewrite Eb, Exk. field. lra.
        + (* y is the top end: the pre-image is the right end, which the forward direction puts into the last bin *)
          assert (Ey1 : ynorm y = 1) by (rewrite Eq, ElastK, <- pdf_length, psum_all; apply pdf_sum).
          assert (Exn1 : xn = 1).
          { unfold xn, Ginv. rewrite Eq. rewrite psum_S by (rewrite pdf_length; exact Hk).
            replace (psum pdf k + nth k pdf 0 - psum pdf k) with (nth k pdf 0) by ring.
            replace (INR K) with (INR (S k)) by (rewrite ElastK; reflexivity). rewrite S_INR.
            assert (0 <= INR k) by apply pos_INR. field. split; lra. }
          rewrite Exn1, G_1, Ey1. split; [reflexivity|].
          destruct (bin_of_spec 1 ltac:(lra)) as [Hb1 [[C1 C2] C3]]. rewrite Rmult_1_l in C1, C2, C3.
          assert (Eb : bin_of 1 = k).
          { assert (S (bin_of 1) = K).
            { destruct C3 as [C3|C3]; [|exact C3]. exfalso.
              assert (INR (S (bin_of 1)) <= INR K) by (apply le_INR; lia). rewrite S_INR in H. lra. }
            lia. }
          rewrite Eb. reflexivity. }
    destruct HG as [HGy Hp].
    pose proof (linear_forward x Hx) as EF. cbv zeta in EF. rewrite Exn in EF.
    unfold FL, FLlad. rewrite EF. rewrite HGy, Hp. split.
    - unfold ynorm. field. lra.
    - ring.
  Qed.

  (* inverse (forward x) = x: the forward direction is injective (strictly increasing), so the pre-image found above is x *)
  Theorem linear_inverse_of_forward x : b_left bx <= x <= b_right bx ->
    linear_spline Rops true bx u (FL x) = Ok (x, - FLlad x).
  Proof.
    intros Hx. destruct linear_whole as [Hacc [_ Hinc]].
    destruct (Hacc x Hx) as [y [l [E [Hy _]]]]. assert (EFL : FL x = y) by (unfold FL; rewrite E; reflexivity).
    rewrite EFL. destruct (linear_forward_of_inverse y Hy) as [x' [l' [E' [Hx' [Hf Hl]]]]].
    assert (x' = x).
    { destruct (Rtotal_order x' x) as [L|[Eq|L]]; [exfalso | exact Eq | exfalso].
      - pose proof (Hinc x' x ltac:(lra) L ltac:(lra)). lra.
      - pose proof (Hinc x x' ltac:(lra) L ltac:(lra)). lra. }
    subst x'. rewrite E', Hl. reflexivity.
  Qed.
End LinWhole.
