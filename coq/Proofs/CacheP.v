From Coq Require Import List Bool Arith Lia.
From NF Require Import Gen.LinearCache Model.Cache.
Import ListNotations.

Definition entry_ok (s : st) (o : option entry) : Prop :=
  match o with Some e => e_ver e = ver s /\ e_dt e = dt s | None => True end.
Definition entry_live (o : option entry) : Prop :=
  match o with Some e => e_alive e = true | None => True end.

(* the cache is empty while training, and whatever is cached was computed from the
   current parameters in the current dtype *)
Definition Inv (s : st) : Prop :=
  (training s = true -> cw s = None /\ ci s = None /\ cl s = None) /\
  entry_ok s (cw s) /\ entry_ok s (ci s) /\ entry_ok s (cl s).
Definition Live (s : st) : Prop := entry_live (cw s) /\ entry_live (ci s) /\ entry_live (cl s).

Lemma dtype_eqb_refl d : dtype_eqb d d = true.
Proof. destruct d; reflexivity. Qed.

Lemma inv_init u : Inv (init_using u) /\ Live (init_using u).
Proof. unfold Inv, Live; simpl; tauto. Qed.

Ltac case_opt := repeat match goal with
  | |- context [match ?o with Some _ => _ | None => _ end] => destruct o eqn:?
  | H : context [match ?o with Some _ => _ | None => _ end] |- _ => destruct o eqn:?
  end.

Ltac fin := unfold Inv, entry_ok in *; cbn in *;
  repeat match goal with
         | |- _ /\ _ => split
         | |- _ -> _ => intro
         | H : false = true |- _ => discriminate H
         | H : true = false |- _ => discriminate H
         end; try assumption; try tauto; auto.

Lemma cached_eval_inv inv backward s :
  Inv s -> training s = false -> Inv (fst (cached_eval inv backward s)).
Proof.
  intros [Ht [Hw [Hi Hl]]] Et.
  unfold cached_eval, lin_forward_fill, lin_inverse_fill.
  destruct inv; destruct (cw s) as [ew|] eqn:Ew; destruct (ci s) as [ei|] eqn:Ei; destruct (cl s) as [el|] eqn:El;
    cbn; unfold Inv; cbn; rewrite ?Et, ?Ew, ?Ei, ?El; cbn in *;
    repeat match goal with |- context [if ?c then _ else _] => destruct c end; cbn; fin.
Qed.

(* one step of an admissible op preserves the invariant *)
Lemma step_inv s o :
  Inv s -> (match o with Update => training s = true | _ => True end) ->
  Inv (fst (step s o)).
Proof.
  intros HI Hadm. pose proof HI as [Ht [Hw [Hi Hl]]].
  destruct o; cbn [step fst].
  - (* Train *) unfold lin_train_invalidates, invalidate, lin_invalidate_clears_all. fin.
  - (* Eval *) fin.
  - (* UseCache *) fin.
  - unfold eval_op. destruct (lin_forward_uses_cache (training s) (usingc s)) eqn:E; [|exact HI].
    apply cached_eval_inv; [exact HI|]. unfold lin_forward_uses_cache in E. destruct (training s); [discriminate|reflexivity].
  - unfold eval_op. destruct (lin_inverse_uses_cache (training s) (usingc s)) eqn:E; [|exact HI].
    apply cached_eval_inv; [exact HI|]. unfold lin_inverse_uses_cache in E. destruct (training s); [discriminate|reflexivity].
  - unfold eval_op. destruct (lin_forward_uses_cache (training s) (usingc s)) eqn:E; [|exact HI].
    apply cached_eval_inv; [exact HI|]. unfold lin_forward_uses_cache in E. destruct (training s); [discriminate|reflexivity].
  - unfold eval_op. destruct (lin_inverse_uses_cache (training s) (usingc s)) eqn:E; [|exact HI].
    apply cached_eval_inv; [exact HI|]. unfold lin_inverse_uses_cache in E. destruct (training s); [discriminate|reflexivity].
  - (* Update: only while training, where the cache is empty *)
    destruct (Ht Hadm) as [E1 [E2 E3]]. unfold Inv, set_params; cbn. rewrite E1, E2, E3. fin.
  - (* LoadState *)
    unfold lin_load_invalidates, invalidate, lin_invalidate_clears_all, set_params. fin.
  - (* ToDtype *)
    unfold lin_apply_invalidates, invalidate, lin_invalidate_clears_all, set_params. fin.
Qed.

Lemma cached_eval_obs inv s :
  Inv s -> snd (cached_eval inv false s) = OOut (ver s) (dt s) (ver s) (dt s).
Proof.
  intros [Ht [Hw [Hi Hl]]].
  unfold cached_eval, lin_forward_fill, lin_inverse_fill.
  destruct inv; destruct (cw s) as [ew|] eqn:Ew; destruct (ci s) as [ei|] eqn:Ei; destruct (cl s) as [el|] eqn:El;
    cbn in *;
    repeat match goal with
           | H : _ /\ _ |- _ => destruct H
           | H : e_ver _ = _ |- _ => rewrite H
           | H : e_dt _ = _ |- _ => rewrite H
           end; rewrite ?dtype_eqb_refl; reflexivity.
Qed.

(* a backward pass is only exercised where the cache is not consulted *)
Definition bw_safe (s : st) (o : op) : bool :=
  match o with
  | ForwardBackward => negb (lin_forward_uses_cache (training s) (usingc s))
  | InverseBackward => negb (lin_inverse_uses_cache (training s) (usingc s))
  | _ => true
  end.

Lemma step_obs s o : Inv s -> bw_safe s o = true -> snd (step s o) = ref_obs s o.
Proof.
  intros HI Hb. destruct o; cbn [step snd ref_obs]; try reflexivity.
  - unfold eval_op. destruct (lin_forward_uses_cache _ _); [apply cached_eval_obs; exact HI | reflexivity].
  - unfold eval_op. destruct (lin_inverse_uses_cache _ _); [apply cached_eval_obs; exact HI | reflexivity].
  - unfold eval_op. cbn in Hb. destruct (lin_forward_uses_cache _ _); [discriminate | reflexivity].
  - unfold eval_op. cbn in Hb. destruct (lin_inverse_uses_cache _ _); [discriminate | reflexivity].
Qed.

Fixpoint bw_safe_all (s : st) (ops : list op) : bool :=
  match ops with
  | [] => true
  | o :: r => bw_safe s o && bw_safe_all (fst (step s o)) r
  end.

(* Transparency over every history: any sequence of train / eval / use_cache /
   forward / inverse / optimiser step (in training mode) / load_state_dict / dtype
   change, with backward passes wherever the cache is not consulted. *)
Theorem cache_transparent_partial ops : forall s,
  Inv s -> admissible s ops = true -> bw_safe_all s ops = true -> run s ops = run_ref s ops.
Proof.
  induction ops as [|o r IH]; intros s HI Ha Hb; [reflexivity|].
  cbn [run run_ref admissible bw_safe_all] in *.
  apply andb_prop in Ha. destruct Ha as [Ha1 Ha2]. apply andb_prop in Hb. destruct Hb as [Hb1 Hb2].
  pose proof (step_obs s o HI Hb1) as Ho.
  assert (HI' : Inv (fst (step s o))).
  { apply step_inv; [exact HI|]. destruct o; try exact I. exact Ha1. }
  destruct (step s o) as [s' ob] eqn:E. cbn [fst snd] in *. subst ob. f_equal. apply IH; assumption.
Qed.

Lemma no_backward_bw_safe ops : forall s, forallb no_backward ops = true -> bw_safe_all s ops = true.
Proof.
  induction ops as [|o r IH]; intros s H; [reflexivity|]. cbn in H. apply andb_prop in H. destruct H as [H1 H2].
  cbn [bw_safe_all]. rewrite (IH _ H2), andb_true_r. destruct o; try reflexivity; discriminate.
Qed.

Corollary cache_transparent_no_backward ops u :
  admissible (init_using u) ops = true -> forallb no_backward ops = true ->
  run (init_using u) ops = run_ref (init_using u) ops.
Proof.
  intros Ha Hb. apply cache_transparent_partial; [apply inv_init | exact Ha | apply no_backward_bw_safe; exact Hb].
Qed.

(* the full statement of the property is false: repeated back-propagation through the cached weight *)
Lemma cache_double_backward_refuted :
  exists ops, admissible (init_using true) ops = true /\ run (init_using true) ops <> run_ref (init_using true) ops.
Proof.
  exists [Eval; ForwardBackward; ForwardBackward]. split; [reflexivity|]. vm_compute. discriminate.
Qed.

(* a first backward pass through a freshly filled cache is fine *)
Lemma cache_single_backward_ok :
  run (init_using true) [Eval; ForwardBackward] = run_ref (init_using true) [Eval; ForwardBackward].
Proof. vm_compute. reflexivity. Qed.

(* the fill logic never leaves a needed field empty *)
Lemma fill_complete wn ln :
  (wn = true -> fst (lin_forward_fill wn ln) = true) /\ (ln = true -> snd (lin_forward_fill wn ln) = true) /\
  (wn = true -> fst (lin_inverse_fill wn ln) = true) /\ (ln = true -> snd (lin_inverse_fill wn ln) = true).
Proof. destruct wn, ln; cbn; repeat split; intros; try reflexivity; discriminate. Qed.
