(* Change of variables through the unconstrained rational-quadratic spline (linear tails) and the one-dimensional spline flow
   over a standard normal base (C03): for every accepted configuration, all unnormalised parameters and every A beyond the tail
   bound,   int_{-A}^{A} exp (log_prob x) dx  =  int_{-A}^{A} standard normal density:
   the flow's density carries exactly the base mass of [-A, A] (the spline maps [-A, A] onto itself). *)
From Coq Require Import Reals ZArith List Bool Arith Lia Lra.
From Coquelicot Require Import Coquelicot.
From NF Require Import Base.Ops Base.Rops Base.Result Gen.Utils Gen.SplineRQ Gen.Dist Model.Utils Model.Vec Model.SplineRQ
  Proofs.SplineRQP Proofs.SplineRQWhole Proofs.SplineRQTails Proofs.DistP.
Import ListNotations.
Open Scope R_scope.

Section TailsIntegral.
  Variables (c : @rq_cfg R) (B : R) (uw uh ud : list R).
  Hypothesis HB : 0 < B.
  Let bx : @box R := {| b_left := - B; b_right := B; b_bottom := - B; b_top := B |}.
  Let udp := rq_tail_constant Rops (min_derivative c) :: ud ++ [rq_tail_constant Rops (min_derivative c)].
  Hypothesis Hwf : rq_wellformed c bx uw uh udp.

  Definition Ulad (x : R) : R := match rq_unconstrained Rops c false B uw uh ud x with Ok (_, l) => l | _ => 0 end.

  Lemma Ulad_inside x : - B <= x <= B -> Ulad x = Flad c bx uw uh udp x.
  Proof. intros Hx. unfold Ulad, rq_unconstrained. apply (inside_iff B) in Hx. rewrite Hx. reflexivity. Qed.

  Lemma Ulad_outside x : x < - B \/ B < x -> Ulad x = 0.
  Proof.
    intros Hx. unfold Ulad, rq_unconstrained. destruct (rq_inside_tails Rops x B) eqn:E; [|reflexivity].
    apply (inside_iff B) in E. lra.
  Qed.

  Variable phi : R -> R.
  Hypothesis Hphi : forall y, continuous phi y.

  Lemma phi_int a b : is_RInt phi a b (RInt phi a b).
  Proof. apply (RInt_correct (V := R_CompleteNormedModule)). apply (ex_RInt_continuous (V := R_CompleteNormedModule)). intros z _. apply Hphi. Qed.

  Lemma tail_piece a b : a <= b -> (b <= - B \/ B <= a) ->
    is_RInt (fun x => phi (U c B uw uh ud x) * exp (Ulad x)) a b (RInt phi a b).
  Proof.
    intros Hab Hout. apply (is_RInt_ext phi); [|apply phi_int].
    intros x Hx. rewrite Rmin_left, Rmax_right in Hx by exact Hab.
    rewrite (U_outside c B uw uh ud x), Ulad_outside by lra. rewrite exp_0, Rmult_1_r. reflexivity.
  Qed.

  Lemma middle_piece :
    is_RInt (fun x => phi (U c B uw uh ud x) * exp (Ulad x)) (- B) B (RInt phi (- B) B).
  Proof.
    destruct Hwf as [H1 [H2 [H3 [H4 [H5 [H6 [H7 [H8 [H9 [H10 H11]]]]]]]]]].
    pose proof (whole_change_of_variables c bx uw uh udp H1 H2 H3 H4 H5 H6 H7 H8 H9 H10 H11 phi (fun y _ => Hphi y)) as H.
    cbn [b_left b_right b_bottom b_top bx] in H.
    apply (is_RInt_ext (fun x => phi (F c bx uw uh udp x) * exp (Flad c bx uw uh udp x))); [|exact H].
    intros x Hx. rewrite Rmin_left, Rmax_right in Hx by lra.
    rewrite (U_inside c B uw uh ud x), Ulad_inside by lra. reflexivity.
  Qed.

  (* the density phi(U x) U'(x) of the flow carries exactly the base mass of [-A, A], for every A beyond the tail bound *)
  Theorem unconstrained_change_of_variables A : B <= A ->
    is_RInt (fun x => phi (U c B uw uh ud x) * exp (Ulad x)) (- A) A (RInt phi (- A) A).
  Proof.
    intros HA.
    assert (Ex : forall a b, ex_RInt phi a b).
    { intros a b. apply (ex_RInt_continuous (V := R_CompleteNormedModule)). intros z _. apply Hphi. }
    rewrite <- (RInt_Chasles phi (- A) (- B) A) by apply Ex.
    rewrite <- (RInt_Chasles phi (- B) B A) by apply Ex.
    apply (is_RInt_Chasles (V := R_NormedModule) _ (- A) (- B) A); [apply tail_piece; lra|].
    apply (is_RInt_Chasles (V := R_NormedModule) _ (- B) B A); [apply middle_piece | apply tail_piece; lra].
  Qed.
End TailsIntegral.

(* the flow Flow(PiecewiseRationalQuadraticCDF with linear tails, StandardNormal([1])): log_prob x = base log-density of the
   transformed point + the transform's log-abs-det (generated [flow_log_prob], [sn_neg_energy_term], [sn_log_z]) *)
Section SplineFlow.
  Variables (c : @rq_cfg R) (B : R) (uw uh ud : list R).
  Hypothesis HB : 0 < B.
  Let bx : @box R := {| b_left := - B; b_right := B; b_bottom := - B; b_top := B |}.
  Let udp := rq_tail_constant Rops (min_derivative c) :: ud ++ [rq_tail_constant Rops (min_derivative c)].
  Hypothesis Hwf : rq_wellformed c bx uw uh udp.

  Definition spline_flow_log_prob (x : R) : R :=
    flow_log_prob Rops (sn_lp1 (U c B uw uh ud x)) (Ulad c B uw uh ud x).

  Lemma sn_density_continuous y : continuous (fun v => exp (sn_lp1 v)) y.
  Proof.
    apply (ex_derive_continuous (fun v => exp (sn_lp1 v))).
    unfold sn_lp1, sn_neg_energy_term, sn_log_z, o_lit, o_sq. cbn [Rops o_mul o_neg o_div o_ofZ o_ln o_pi o_sub].
    auto_derive. exact I.
  Qed.

  Theorem spline_flow_carries_the_base_mass A : B <= A ->
    is_RInt (fun x => exp (spline_flow_log_prob x)) (- A) A (RInt (fun y => exp (sn_lp1 y)) (- A) A).
  Proof.
    intros HA.
    pose proof (unconstrained_change_of_variables c B uw uh ud HB Hwf (fun y => exp (sn_lp1 y)) sn_density_continuous A HA) as H.
    apply (is_RInt_ext (fun x => exp (sn_lp1 (U c B uw uh ud x)) * exp (Ulad c B uw uh ud x))); [|exact H].
    intros x _. unfold spline_flow_log_prob, flow_log_prob. cbn [Rops o_add]. rewrite exp_plus. reflexivity.
  Qed.
End SplineFlow.
