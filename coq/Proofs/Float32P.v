(* Single precision as a THIRD instance of the operation dictionary (C19): [Fops32] is [Rops] with every arithmetic result rounded
   to the nearest binary32 number (Flocq: radix 2, 24-bit significands, exponents from -149, ties to even) - the IEEE-754 semantics of
   + - * / and sqrt, and a correctly-rounded idealisation of the transcendental functions.  The regenerated formulas, evaluated in
   this dictionary, are what float32 computes; evaluated in [Rops] they are the exact map.  For the two affine formulas the library
   evaluates everywhere - ActNorm's  scale * x + shift  and the conditional normal's sampler  mean + std * noise  - the float32 result
   differs from the exact one by at most  u (2 + u) |scale x| + u |shift|,  u = 2^-24,  whenever neither the product nor the sum is
   subnormal: single-precision accuracy, scaled by the size of the terms (not of the result), i.e. by the conditioning of the sum. *)
From Coq Require Import Reals ZArith Lra Psatz.
From Flocq Require Import Core Relative.
From NF Require Import Base.Ops Base.Rops Gen.Norm Gen.Dist.
Open Scope R_scope.

Definition rnd32 (x : R) : R := round radix2 (FLT_exp (-149) 24) ZnearestE x.

Definition Fops32 : ops R := {|
  o_zero := 0; o_one := 1; o_pi := rnd32 PI;
  o_add := fun a b => rnd32 (a + b); o_sub := fun a b => rnd32 (a - b);
  o_mul := fun a b => rnd32 (a * b); o_div := fun a b => rnd32 (a / b);
  o_neg := Ropp; o_abs := Rabs;
  o_exp := fun a => rnd32 (exp a); o_ln := fun a => rnd32 (ln a); o_sqrt := fun a => rnd32 (sqrt a);
  o_tanh := fun a => rnd32 (tanh a); o_atan := fun a => rnd32 (atan a); o_tan := fun a => rnd32 (tan a);
  o_cos := fun a => rnd32 (cos a); o_sin := fun a => rnd32 (sin a); o_atan2 := fun a b => rnd32 (o_atan2 Rops a b);
  o_leb := Rleb; o_ltb := Rltb;
  o_floor := fun x => (up x - 1)%Z;
  o_ofZ := fun z => rnd32 (IZR z)
|}.

Definition u32 : R := / 2 * bpow radix2 (-24 + 1).
Definition tiny32 : R := bpow radix2 (-149 + 24 - 1).       (* 2^-126, the smallest normal number *)

Lemma u32_val : u32 = / 16777216.
Proof. unfold u32. change (bpow radix2 (-24 + 1)) with (/ IZR (Z.pow_pos 2 23)). change (Z.pow_pos 2 23) with 8388608%Z. lra. Qed.

Lemma rnd32_rel x : tiny32 <= Rabs x -> Rabs (rnd32 x - x) <= u32 * Rabs x.
Proof.
  intros Hx. unfold rnd32, u32.
  apply (relative_error_N_FLT radix2 (-149) 24 ltac:(reflexivity) (fun z => negb (Z.even z)) x). exact Hx.
Qed.

(* the generic two-operation bound:  fl(fl(a * b) + c)  against  a * b + c *)
Lemma fma_like_error (a b c : R) :
  tiny32 <= Rabs (a * b) -> tiny32 <= Rabs (rnd32 (a * b) + c) ->
  Rabs (rnd32 (rnd32 (a * b) + c) - (a * b + c)) <= u32 * (2 + u32) * Rabs (a * b) + u32 * Rabs c.
Proof.
  intros H1 H2.
  pose proof (rnd32_rel (a * b) H1) as E1. pose proof (rnd32_rel (rnd32 (a * b) + c) H2) as E2.
  set (p := a * b) in *. set (rp := rnd32 p) in *. set (s := rnd32 (rp + c)) in *.
  assert (U0 : 0 <= u32) by (rewrite u32_val; lra).
  assert (T1 : Rabs (s - (p + c)) <= Rabs (s - (rp + c)) + Rabs (rp - p)).
  { replace (s - (p + c)) with ((s - (rp + c)) + (rp - p)) by ring. apply Rabs_triang. }
  assert (T2 : Rabs (rp + c) <= Rabs rp + Rabs c) by apply Rabs_triang.
  assert (T3 : Rabs rp <= Rabs p + u32 * Rabs p).
  { replace rp with (p + (rp - p)) by ring. eapply Rle_trans; [apply Rabs_triang|]. lra. }
  pose proof (Rabs_pos p) as Pp. pose proof (Rabs_pos c) as Pc.
  assert (E2' : Rabs (s - (rp + c)) <= u32 * (Rabs p + u32 * Rabs p + Rabs c)).
  { eapply Rle_trans; [exact E2|]. apply Rmult_le_compat_l; [exact U0|]. lra. }
  nra.
Qed.

(* ActNorm forward, as regenerated:  scale * x + shift *)
Theorem actnorm_forward_float32_error (scale shift x : R) :
  tiny32 <= Rabs (scale * x) -> tiny32 <= Rabs (rnd32 (scale * x) + shift) ->
  Rabs (an_forward_out Fops32 scale shift x - an_forward_out Rops scale shift x)
  <= u32 * (2 + u32) * Rabs (scale * x) + u32 * Rabs shift.
Proof.
  intros H1 H2. unfold an_forward_out. cbn [o_add o_mul Fops32 Rops]. apply fma_like_error; assumption.
Qed.

(* the conditional normal's sampler, as regenerated:  mean + std * noise *)
Theorem cdn_sample_float32_error (mean std noise : R) :
  tiny32 <= Rabs (std * noise) -> tiny32 <= Rabs (rnd32 (std * noise) + mean) ->
  Rabs (cdn_sample Fops32 mean std noise - cdn_sample Rops mean std noise)
  <= u32 * (2 + u32) * Rabs (std * noise) + u32 * Rabs mean.
Proof.
  intros H1 H2. unfold cdn_sample. cbn [o_add o_mul Fops32 Rops].
  replace (mean + rnd32 (std * noise)) with (rnd32 (std * noise) + mean) by ring.
  replace (mean + std * noise) with (std * noise + mean) by ring.
  apply fma_like_error; assumption.
Qed.

(* numbers float32 holds are left alone: the dictionary is the identity on its own outputs *)
Lemma rnd32_idempotent x : rnd32 (rnd32 x) = rnd32 x.
Proof. unfold rnd32. apply round_generic; [apply valid_rnd_N | apply generic_format_round; [apply FLT_exp_valid; reflexivity | apply valid_rnd_N]]. Qed.

(* ActNorm inverse, as regenerated:  (y - shift) / scale :  a relative bound (the quotient of a difference) *)
Theorem actnorm_inverse_float32_error (scale shift y : R) :
  scale <> 0 -> tiny32 <= Rabs (y - shift) -> tiny32 <= Rabs (rnd32 (y - shift) / scale) ->
  Rabs (an_inverse_out Fops32 scale shift y - an_inverse_out Rops scale shift y)
  <= u32 * (2 + u32) * Rabs ((y - shift) / scale).
Proof.
  intros Hs H1 H2. unfold an_inverse_out. cbn [o_div o_sub Fops32 Rops].
  pose proof (rnd32_rel (y - shift) H1) as E1. pose proof (rnd32_rel (rnd32 (y - shift) / scale) H2) as E2.
  set (d0 := y - shift) in *. set (d := rnd32 d0) in *. set (q := rnd32 (d / scale)) in *.
  assert (U0 : 0 <= u32) by (rewrite u32_val; lra).
  assert (Ps : 0 < Rabs scale) by (apply Rabs_pos_lt; exact Hs).
  assert (A1 : Rabs (d / scale - d0 / scale) <= u32 * Rabs (d0 / scale)).
  { replace (d / scale - d0 / scale) with ((d - d0) / scale) by (field; exact Hs).
    unfold Rdiv. rewrite !Rabs_mult, Rabs_inv. rewrite <- Rmult_assoc.
    apply Rmult_le_compat_r; [left; apply Rinv_0_lt_compat; exact Ps | exact E1]. }
  assert (A2 : Rabs (d / scale) <= Rabs (d0 / scale) + u32 * Rabs (d0 / scale)).
  { replace (d / scale) with (d0 / scale + (d / scale - d0 / scale)) by ring. eapply Rle_trans; [apply Rabs_triang|]. lra. }
  assert (T : Rabs (q - d0 / scale) <= Rabs (q - d / scale) + Rabs (d / scale - d0 / scale)).
  { replace (q - d0 / scale) with ((q - d / scale) + (d / scale - d0 / scale)) by ring. apply Rabs_triang. }
  pose proof (Rabs_pos (d0 / scale)) as P0.
  assert (E2' : Rabs (q - d / scale) <= u32 * (Rabs (d0 / scale) + u32 * Rabs (d0 / scale))).
  { eapply Rle_trans; [exact E2|]. apply Rmult_le_compat_l; [exact U0 | exact A2]. }
  nra.
Qed.

(* non-vacuity: ordinary numbers meet the no-underflow conditions *)
Example float32_hypotheses_hold_for_ordinary_values :
  tiny32 <= Rabs (2 * 3) /\ tiny32 <= Rabs (rnd32 (2 * 3) + 1) /\ rnd32 (2 * 3) = 6.
Proof.
  assert (T : tiny32 <= 1).
  { unfold tiny32. change 1 with (bpow radix2 0). apply bpow_le. apply Z.leb_le. reflexivity. }
  replace (2 * 3) with 6 by lra.
  assert (R6 : rnd32 6 = 6).
  { unfold rnd32. apply round_generic; [apply valid_rnd_N|].
    replace 6 with (F2R (Float radix2 6 0)) by (unfold F2R; simpl; lra).
    apply generic_format_F2R. intros _. unfold cexp, FLT_exp. rewrite (mag_F2R_Zdigits radix2 6 0) by discriminate.
    simpl. apply Z.leb_le. reflexivity. }
  rewrite R6. split; [|split; [|reflexivity]].
  - rewrite Rabs_pos_eq by lra. lra.
  - replace (6 + 1) with 7 by lra. rewrite Rabs_pos_eq by lra. lra.
Qed.

(* the splines' de-normalisation of a cumulative width / height, as regenerated:  (right - left) * c + left  - three roundings *)
From NF Require Import Gen.SplineRQ.
Theorem rq_denormalise_float32_error (left right c : R) :
  tiny32 <= Rabs (right - left) -> tiny32 <= Rabs (rnd32 (right - left) * c) ->
  tiny32 <= Rabs (rnd32 (rnd32 (right - left) * c) + left) ->
  Rabs (rq_cumwidth_affine Fops32 left right c - rq_cumwidth_affine Rops left right c)
  <= u32 * (3 + 3 * u32 + u32 * u32) * Rabs ((right - left) * c) + u32 * Rabs left.
Proof.
  intros H0 H1 H2. unfold rq_cumwidth_affine. cbn [o_add o_mul o_sub Fops32 Rops].
  pose proof (rnd32_rel (right - left) H0) as E0.
  pose proof (fma_like_error (rnd32 (right - left)) c left H1 H2) as E1.
  set (d0 := right - left) in *. set (d := rnd32 d0) in *.
  set (res := rnd32 (rnd32 (d * c) + left)) in *.
  assert (U0 : 0 <= u32) by (rewrite u32_val; lra).
  assert (A : Rabs (d * c - d0 * c) <= u32 * Rabs (d0 * c)).
  { replace (d * c - d0 * c) with ((d - d0) * c) by ring. rewrite !Rabs_mult. rewrite <- Rmult_assoc.
    apply Rmult_le_compat_r; [apply Rabs_pos | exact E0]. }
  assert (B : Rabs (d * c) <= Rabs (d0 * c) + u32 * Rabs (d0 * c)).
  { replace (d * c) with (d0 * c + (d * c - d0 * c)) by ring. eapply Rle_trans; [apply Rabs_triang|]. lra. }
  assert (T : Rabs (res - (d0 * c + left)) <= Rabs (res - (d * c + left)) + Rabs (d * c - d0 * c)).
  { replace (res - (d0 * c + left)) with ((res - (d * c + left)) + (d * c - d0 * c)) by ring. apply Rabs_triang. }
  pose proof (Rabs_pos (d0 * c)) as P0. pose proof (Rabs_pos left) as Pl. pose proof (Rabs_pos (d * c)) as Pd.
  assert (E1' : Rabs (res - (d * c + left)) <= u32 * (2 + u32) * (Rabs (d0 * c) + u32 * Rabs (d0 * c)) + u32 * Rabs left).
  { eapply Rle_trans; [exact E1|]. apply Rplus_le_compat_r. apply Rmult_le_compat_l; [nra | exact B]. }
  nra.
Qed.
