From Coq Require Import List Arith Bool Lia.
From NF Require Import Base.Result Model.Utils Model.Compose Proofs.UtilsP.
Import ListNotations.

Section Compose.
  Context {X L : Type}.
  Variables (ladd : L -> L -> L) (lzero : L).
  Hypothesis ladd_assoc : forall a b c, ladd a (ladd b c) = ladd (ladd a b) c.
  Hypothesis ladd_comm : forall a b, ladd a b = ladd b a.
  Hypothesis ladd_0_l : forall a, ladd lzero a = a.

  Notation tr := (tr X L).
  Notation cascade := (cascade ladd lzero).
  Notation comp := (comp ladd lzero).

  Lemma ladd_0_r a : ladd a lzero = a.
  Proof. rewrite ladd_comm. apply ladd_0_l. Qed.

  Notation step_acc := (step_acc ladd).

  Lemma fold_acc (fs : list (X -> X * L)) : forall (x : X) (a : L),
    fold_left step_acc fs (x, a)
    = (fst (fold_left step_acc fs (x, lzero)), ladd a (snd (fold_left step_acc fs (x, lzero)))).
  Proof.
    induction fs as [|f fs IH]; intros x a; cbn [fold_left].
    - cbn. rewrite ladd_0_r. reflexivity.
    - unfold step_acc at 2 4 6. cbn [fst snd]. destruct (f x) as [y l].
      rewrite (IH y (ladd a l)), (IH y (ladd lzero l)). cbn [fst snd].
      rewrite ladd_0_l, ladd_assoc. reflexivity.
  Qed.

  (* the log-det of a cascade is the log-det of the first part plus that of the rest,
     evaluated at the first part's output *)
  Lemma cascade_cons (f : X -> X * L) (fs : list (X -> X * L)) (x : X) :
    cascade (f :: fs) x = (fst (cascade fs (fst (f x))), ladd (snd (f x)) (snd (cascade fs (fst (f x))))).
  Proof.
    unfold Compose.cascade. cbn [fold_left]. unfold Compose.step_acc at 2. cbn [fst snd].
    destruct (f x) as [y l]. cbn [fst snd]. rewrite fold_acc, ladd_0_l. reflexivity.
  Qed.

  Lemma cascade_nil (x : X) : cascade [] x = (x, lzero).
  Proof. reflexivity. Qed.

  Lemma cascade_app (fs gs : list (X -> X * L)) (x : X) :
    cascade (fs ++ gs) x
    = (fst (cascade gs (fst (cascade fs x))), ladd (snd (cascade fs x)) (snd (cascade gs (fst (cascade fs x))))).
  Proof.
    revert x; induction fs as [|f fs IH]; intros x.
    - cbn [app]. rewrite cascade_nil. cbn [fst snd]. rewrite ladd_0_l. destruct (cascade gs x); reflexivity.
    - cbn [app]. rewrite !cascade_cons, IH. cbn [fst snd]. rewrite ladd_assoc. reflexivity.
  Qed.

  (* the parts are applied in the order given *)
  Lemma comp_fwd_order (ts : list tr) (x : X) :
    fst (fwd (comp ts) x) = fold_left (fun v t => fst (fwd t v)) ts x.
  Proof.
    cbn [Compose.comp fwd]. revert x; induction ts as [|t ts IH]; intros x; [reflexivity|].
    cbn [map fold_left]. rewrite cascade_cons. cbn [fst]. apply IH.
  Qed.

  (* the inverse applies the parts' inverses in reverse order *)
  Lemma comp_inv_order (ts : list tr) (y : X) :
    fst (inv (comp ts) y) = fold_right (fun t v => fst (inv t v)) y ts.
  Proof.
    cbn [Compose.comp inv]. revert y; induction ts as [|t ts IH]; intros y; [reflexivity|].
    cbn [rev map fold_right]. rewrite map_app, cascade_app. cbn [fst map]. rewrite cascade_cons, cascade_nil.
    cbn [fst]. rewrite IH. reflexivity.
  Qed.

  (* a transform whose two directions undo each other with opposite log-dets *)
  Definition undoes (f g : X -> X * L) : Prop :=
    forall x, fst (g (fst (f x))) = x /\ ladd (snd (f x)) (snd (g (fst (f x)))) = lzero.
  Definition good (t : tr) : Prop := undoes (fwd t) (inv t) /\ undoes (inv t) (fwd t).

  Lemma undoes_cascade (fs gs : list (X -> X * L)) :
    Forall2 undoes fs gs -> undoes (cascade fs) (cascade (rev gs)).
  Proof.
    induction 1 as [|f g fs gs Hfg Hrest IH]; intros x.
    - cbn. split; [reflexivity | apply ladd_0_l].
    - cbn [rev]. rewrite cascade_cons, cascade_app. cbn [fst snd]. rewrite cascade_cons, cascade_nil. cbn [fst snd].
      destruct (IH (fst (f x))) as [E1 E2]. destruct (Hfg x) as [E3 E4].
      rewrite E1. split; [exact E3|].
      rewrite ladd_0_r.
      set (a := snd (f x)) in *. set (b := snd (cascade fs (fst (f x)))) in *.
      set (c := snd (cascade (rev gs) (fst (cascade fs (fst (f x)))))) in *. set (d := snd (g (fst (f x)))) in *.
      (* (a + b) + (c + d) = (b + c) + (a + d) *)
      transitivity (ladd (ladd b c) (ladd a d)).
      + rewrite (ladd_comm a b), <- !ladd_assoc. f_equal. rewrite !ladd_assoc, (ladd_comm a c), <- !ladd_assoc. reflexivity.
      + rewrite E2, E4. apply ladd_0_l.
  Qed.

  Lemma Forall2_rev {A B} (R : A -> B -> Prop) l1 l2 : Forall2 R l1 l2 -> Forall2 R (rev l1) (rev l2).
  Proof.
    induction 1 as [|a b l1 l2 H H' IH]; [constructor|]. cbn [rev]. apply Forall2_app; [exact IH | repeat constructor; exact H].
  Qed.

  Theorem good_comp (ts : list tr) : Forall good ts -> good (comp ts).
  Proof.
    intros H. split; cbn [Compose.comp fwd inv].
    - rewrite map_rev. apply undoes_cascade.
      induction H as [|t ts' [H1 _] _ IH]; cbn [map]; constructor; assumption.
    - replace (map fwd ts) with (rev (map fwd (rev ts))) by (rewrite <- map_rev, rev_involutive; reflexivity).
      apply undoes_cascade. apply Forall_rev in H.
      induction H as [|t ts' [_ H2] _ IH]; cbn [map]; constructor; assumption.
  Qed.

  Theorem good_inverse_of (t : tr) : good t -> good (inverse_of t).
  Proof. intros [H1 H2]. split; cbn; assumption. Qed.

  Theorem inverse_of_swaps (t : tr) : fwd (inverse_of t) = inv t /\ inv (inverse_of t) = fwd t.
  Proof. split; reflexivity. Qed.

  Theorem inverse_of_involutive (t : tr) : inverse_of (inverse_of t) = t.
  Proof. destruct t; reflexivity. Qed.
End Compose.

(* ---------------- splitting along a dimension ---------------- *)
Section Split.
  Context {A : Type}.

  Lemma zip_app_map (f g : list A -> list A) bs :
    zip_app (map f bs) (map g bs) = map (fun b => f b ++ g b) bs.
  Proof. induction bs as [|b bs IH]; cbn; [reflexivity | f_equal; exact IH]. Qed.

  Lemma cat_split (O n I c : nat) (x : list A) :
    length x = (n * I) * O -> c <= n ->
    cat_dim O c (n - c) I (fst (split_dim O n I c x)) (snd (split_dim O n I c x)) = x.
  Proof.
    intros Hl Hc. unfold split_dim, cat_dim. cbn [fst snd].
    pose proof (chunks_Forall (n * I) O x Hl) as F. set (bs := chunks (n * I) O x) in *.
    assert (Lb : length bs = O) by apply chunks_length.
    assert (E1 : chunks (c * I) O (concat (map (firstn (c * I)) bs)) = map (firstn (c * I)) bs).
    { rewrite <- Lb at 1. rewrite <- (map_length (firstn (c * I)) bs). apply chunks_concat.
      apply Forall_forall. intros r Hr. apply in_map_iff in Hr. destruct Hr as [b [<- Hb]].
      rewrite Forall_forall in F. rewrite firstn_length, (F b Hb). nia. }
    assert (E2 : chunks ((n - c) * I) O (concat (map (skipn (c * I)) bs)) = map (skipn (c * I)) bs).
    { rewrite <- Lb at 1. rewrite <- (map_length (skipn (c * I)) bs). apply chunks_concat.
      apply Forall_forall. intros r Hr. apply in_map_iff in Hr. destruct Hr as [b [<- Hb]].
      rewrite Forall_forall in F. rewrite skipn_length, (F b Hb). nia. }
    rewrite E1, E2, zip_app_map.
    rewrite (map_ext _ (fun b => b)) by (intros; apply firstn_skipn). rewrite map_id.
    apply concat_chunks; exact Hl.
  Qed.

  Lemma zip_app_length (a b : list (list A)) : length a = length b -> length (zip_app a b) = length a.
  Proof. revert b; induction a as [|x a IH]; intros [|y b] H; cbn in *; try lia. f_equal. apply IH; lia. Qed.

  Lemma zip_app_Forall m1 m2 (xs ys : list (list A)) :
    Forall (fun r => length r = m1) xs -> Forall (fun r => length r = m2) ys ->
    Forall (fun r => length r = m1 + m2) (zip_app xs ys).
  Proof.
    revert ys; induction xs as [|x xs IH]; intros [|y ys] Fx Fy; cbn [zip_app]; try constructor.
    - inversion Fx; inversion Fy; subst. rewrite app_length. lia.
    - inversion Fx; inversion Fy; subst. apply IH; assumption.
  Qed.

  Lemma zip_app_unzip m1 (xs ys : list (list A)) :
    Forall (fun r => length r = m1) xs -> length xs = length ys ->
    map (firstn m1) (zip_app xs ys) = xs /\ map (skipn m1) (zip_app xs ys) = ys.
  Proof.
    revert ys; induction xs as [|x xs IHx]; intros [|y ys] Fx Hlen; cbn in *; try lia; [split; reflexivity|].
    inversion Fx; subst. destruct (IHx ys H2 ltac:(lia)) as [E1 E2]. rewrite E1, E2.
    rewrite firstn_app, Nat.sub_diag, firstn_O, app_nil_r, firstn_all.
    rewrite skipn_app, skipn_all, Nat.sub_diag, skipn_O. split; reflexivity.
  Qed.

  Lemma split_cat (O c1 c2 I : nat) (a b : list A) :
    length a = (c1 * I) * O -> length b = (c2 * I) * O ->
    split_dim O (c1 + c2) I c1 (cat_dim O c1 c2 I a b) = (a, b).
  Proof.
    intros Ha Hb. unfold split_dim, cat_dim.
    pose proof (chunks_Forall (c1 * I) O a Ha) as Fa. pose proof (chunks_Forall (c2 * I) O b Hb) as Fb.
    pose proof (chunks_length (c1 * I) O a) as La. pose proof (chunks_length (c2 * I) O b) as Lb.
    pose proof (concat_chunks (c1 * I) O a Ha) as Ca. pose proof (concat_chunks (c2 * I) O b Hb) as Cb.
    set (xs := chunks (c1 * I) O a) in *. set (ys := chunks (c2 * I) O b) in *. clearbody xs ys.
    pose proof (zip_app_Forall _ _ xs ys Fa Fb) as Fz.
    assert (Lz : length (zip_app xs ys) = O) by (rewrite zip_app_length; lia).
    replace ((c1 + c2) * I) with (c1 * I + c2 * I) by lia.
    rewrite <- Lz at 1 2. rewrite chunks_concat by exact Fz.
    destruct (zip_app_unzip _ xs ys Fa ltac:(lia)) as [E1 E2]. rewrite E1, E2, Ca, Cb. reflexivity.
  Qed.

  Lemma split_lengths (O n I c : nat) (x : list A) :
    length x = (n * I) * O -> c <= n ->
    length (fst (split_dim O n I c x)) = (c * I) * O /\ length (snd (split_dim O n I c x)) = ((n - c) * I) * O.
  Proof.
    intros Hl Hc. unfold split_dim. cbn [fst snd].
    pose proof (chunks_Forall (n * I) O x Hl) as F. pose proof (chunks_length (n * I) O x) as Lb.
    set (bs := chunks (n * I) O x) in *. clearbody bs. clear Hl. revert O Lb.
    induction bs as [|b bs IH]; intros O Lb; cbn in *; [subst; lia|].
    inversion F; subst. destruct (IH H2 (length bs) eq_refl) as [E1 E2].
    rewrite !app_length, E1, E2, firstn_length, skipn_length, H1. nia.
  Qed.
End Split.

(* ---------------- MultiscaleCompositeTransform ---------------- *)
Lemma firstn_nth_skipn {B} (l : list B) k d : k < length l -> firstn k l ++ nth k l d :: skipn (S k) l = l.
Proof.
  revert k; induction l as [|a l IH]; intros k H; cbn in H; [lia|].
  destruct k as [|k]; cbn; [reflexivity|]. f_equal. apply IH. lia.
Qed.

Lemma prod_dim_split sh d :
  1 <= d -> d - 1 < length sh ->
  let '(q, n, r) := dim_split sh d in prod sh = (n * r) * q.
Proof.
  intros Hd Hl. unfold dim_split.
  rewrite <- (firstn_nth_skipn sh (d - 1) 0 Hl) at 1. replace (S (d - 1)) with d by lia.
  rewrite prod_app. cbn [prod fold_right]. fold (prod (skipn d sh)). lia.
Qed.

Lemma half_split n : (n + 1) / 2 <= n /\ n - (n + 1) / 2 = n / 2.
Proof.
  pose proof (Nat.div_mod n 2 ltac:(lia)) as D1. pose proof (Nat.div_mod (n + 1) 2 ltac:(lia)) as D2.
  pose proof (Nat.mod_upper_bound n 2 ltac:(lia)) as U1. pose proof (Nat.mod_upper_bound (n + 1) 2 ltac:(lia)) as U2.
  lia.
Qed.

Section MS.
  Context {A L : Type}.
  Variables (ladd : L -> L -> L) (lzero : L).
  Hypothesis ladd_assoc : forall a b c, ladd a (ladd b c) = ladd (ladd a b) c.
  Hypothesis ladd_comm : forall a b, ladd a b = ladd b a.
  Hypothesis ladd_0_l : forall a, ladd lzero a = a.
  Notation tr := (tr (list A) L).
  Notation stage := (tr * list nat)%type.
  Notation good := (@good (list A) L ladd lzero).

  Definition len_pres (t : tr) : Prop :=
    (forall x, length (fst (fwd t x)) = length x) /\ (forall y, length (fst (inv t y)) = length y).

  Definition hidden_size (sh : list nat) (d : nat) : nat :=
    let '(q, n, r) := dim_split sh d in ((n / 2) * r) * q.

  Fixpoint stages_ok (d : nat) (ss : list stage) : Prop :=
    match ss with
    | [] => True
    | (t, sh) :: rest =>
      good t /\ len_pres t /\
      match rest with
      | [] => True
      | (_, sh') :: _ => d - 1 < length sh /\ prod sh' = hidden_size sh d
      end /\ stages_ok d rest
    end.

  Lemma ms_forward_cons2 d t sh s2 rest (x : list A) :
    ms_forward ladd lzero d ((t, sh) :: s2 :: rest) x =
    (let (y, l) := fwd t x in
     let '(q, n, r) := dim_split sh d in
     let (out, hid) := split_dim q n r ((n + 1) / 2) y in
     let (outs, l') := ms_forward ladd lzero d (s2 :: rest) hid in
     (out ++ outs, ladd l l')).
  Proof. destruct s2; reflexivity. Qed.

  Lemma ms_inverse_cons2 d t sh s2 rest (z : list A) :
    ms_inverse ladd lzero d ((t, sh) :: s2 :: rest) z =
    (let '(q, n, r) := dim_split sh d in
     let k := q * ((n + 1) / 2) * r in
     let (hid, l') := ms_inverse ladd lzero d (s2 :: rest) (skipn k z) in
     let (x, l) := inv t (cat_dim q ((n + 1) / 2) (n / 2) r (firstn k z) hid) in
     (x, ladd l' l)).
  Proof. destruct s2; reflexivity. Qed.

  Lemma four_sum a b c e : ladd a c = lzero -> ladd b e = lzero -> ladd (ladd a b) (ladd e c) = lzero.
  Proof.
    intros H1 H2. rewrite <- ladd_assoc, (ladd_assoc b e c), H2, ladd_0_l. exact H1.
  Qed.

  Theorem ms_inverse_forward d : 1 <= d -> forall (ss : list stage) (x : list A),
    stages_ok d ss ->
    (match ss with [] => True | (_, sh) :: _ => length x = prod sh end) ->
    fst (ms_inverse ladd lzero d ss (fst (ms_forward ladd lzero d ss x))) = x /\
    ladd (snd (ms_forward ladd lzero d ss x))
         (snd (ms_inverse ladd lzero d ss (fst (ms_forward ladd lzero d ss x)))) = lzero.
  Proof.
    intros Hd ss. induction ss as [|[t sh] rest IH]; intros x Hok Hlen.
    - cbn. split; [reflexivity | apply ladd_0_l].
    - destruct Hok as [[Hg _] [[Hf Hi] [Hnext Hrest]]].
      destruct rest as [|[t' sh'] rest'].
      + cbn [ms_forward ms_inverse]. exact (Hg x).
      + destruct Hnext as [Hsh Hsz].
        rewrite ms_forward_cons2.
        destruct (fwd t x) as [y l] eqn:Ey.
        assert (Ly : length y = prod sh) by (rewrite <- Hlen, <- (Hf x), Ey; reflexivity).
        pose proof (prod_dim_split sh d Hd Hsh) as Hp. unfold hidden_size in Hsz.
        destruct (dim_split sh d) as [[q n] r] eqn:Ed.
        set (c := (n + 1) / 2) in *.
        destruct (half_split n) as [Hc Hnc]. fold c in Hc, Hnc.
        rewrite Hp in Ly.
        destruct (split_lengths q n r c y Ly Hc) as [Lo Lh].
        pose proof (cat_split q n r c y Ly Hc) as Hcat.
        destruct (split_dim q n r c y) as [out hid] eqn:Es. cbn [fst snd] in Lo, Lh, Hcat.
        assert (Lhid : length hid = prod sh') by (rewrite Hsz, Lh, Hnc; reflexivity).
        specialize (IH hid Hrest Lhid).
        destruct (ms_forward ladd lzero d ((t', sh') :: rest') hid) as [outs l'] eqn:Ef.
        cbn [fst snd] in IH |- *. rewrite ms_inverse_cons2, Ed. fold c. cbv zeta.
        replace (q * c * r) with (length out) by (rewrite Lo; lia).
        rewrite firstn_app, Nat.sub_diag, firstn_O, app_nil_r, firstn_all.
        rewrite skipn_app, skipn_all, Nat.sub_diag, skipn_O. cbn [app].
        destruct (ms_inverse ladd lzero d ((t', sh') :: rest') outs) as [hid2 l''] eqn:Ei.
        try rewrite Ef in IH. cbn [fst snd] in IH. try rewrite Ei in IH. cbn [fst snd] in IH.
        destruct IH as [IH1 IH2]. subst hid2.
        rewrite <- Hnc, Hcat.
        pose proof (Hg x) as [G1 G2]. rewrite Ey in G1, G2. cbn [fst snd] in G1, G2.
        destruct (inv t y) as [x2 l3]. cbn [fst snd] in *. split; [exact G1|].
        apply four_sum; assumption.
  Qed.

  (* sizes: what the stages emit adds up to what went in *)
  Theorem ms_forward_length d : 1 <= d -> forall (ss : list stage) (x : list A),
    stages_ok d ss ->
    (match ss with [] => True | (_, sh) :: _ => length x = prod sh end) ->
    length (fst (ms_forward ladd lzero d ss x)) = length x.
  Proof.
    intros Hd ss. induction ss as [|[t sh] rest IH]; intros x Hok Hlen; [reflexivity|].
    destruct Hok as [_ [[Hf _] [Hnext Hrest]]]. destruct rest as [|[t' sh'] rest'].
    - cbn [ms_forward]. apply Hf.
    - destruct Hnext as [Hsh Hsz]. rewrite ms_forward_cons2.
      destruct (fwd t x) as [y l] eqn:Ey.
      assert (Ly : length y = prod sh) by (rewrite <- Hlen, <- (Hf x), Ey; reflexivity).
      pose proof (prod_dim_split sh d Hd Hsh) as Hp. unfold hidden_size in Hsz.
      destruct (dim_split sh d) as [[q n] r] eqn:Ed.
      set (c := (n + 1) / 2) in *.
      destruct (half_split n) as [Hc Hnc]. fold c in Hc, Hnc.
      rewrite Hp in Ly. destruct (split_lengths q n r c y Ly Hc) as [Lo Lh].
      destruct (split_dim q n r c y) as [out hid]. cbn [fst snd] in Lo, Lh.
      assert (Lhid : length hid = prod sh') by (rewrite Hsz, Lh, Hnc; reflexivity).
      specialize (IH hid Hrest Lhid).
      destruct (ms_forward ladd lzero d ((t', sh') :: rest') hid) as [outs l']. cbn [fst] in *.
      rewrite app_length, IH, Lo, Lh, Hlen, Hp. clearbody c.
      rewrite <- !Nat.mul_add_distr_r. f_equal. f_equal. lia.
  Qed.
End MS.

(* add_transform: the two recorded shapes split the transform's output exactly *)
Lemma add_transform_sizes split_d num count sh out hid :
  1 <= split_d ->
  add_transform split_d num count sh = Ok (out, Some hid) ->
  prod out + prod hid = prod sh /\ length out = length sh /\ length hid = length sh.
Proof.
  intros Hd. unfold add_transform.
  destruct (Nat.eqb count num); [discriminate|].
  destruct (Nat.leb_spec (length sh) (split_d - 1)) as [|Hl]; [discriminate|].
  destruct (Nat.ltb (nth (split_d - 1) sh 0) 2); [discriminate|].
  destruct (negb (Nat.eqb (S count) num)); [|discriminate].
  intros E. inversion E; subst; clear E.
  set (n := nth (split_d - 1) sh 0).
  destruct (half_split n) as [Hc Hnc].
  change (fst (Nat.divmod (n + 1) 1 0 1)) with ((n + 1) / 2). change (fst (Nat.divmod n 1 0 1)) with (n / 2).
  set (c := (n + 1) / 2) in *. set (h := n / 2) in *.
  assert (P : forall v, prod (firstn (split_d - 1) sh ++ v :: skipn split_d sh)
                        = prod (firstn (split_d - 1) sh) * (v * prod (skipn split_d sh))).
  { intros v. rewrite prod_app. reflexivity. }
  assert (Psh : prod sh = prod (firstn (split_d - 1) sh) * (n * prod (skipn split_d sh))).
  { rewrite <- (firstn_nth_skipn sh (split_d - 1) 0 Hl) at 1. replace (S (split_d - 1)) with split_d by lia. apply P. }
  repeat split.
  - rewrite !P, Psh, <- Nat.mul_add_distr_l, <- Nat.mul_add_distr_r. f_equal. f_equal. lia.
  - rewrite app_length, firstn_length. cbn [length]. rewrite skipn_length. lia.
  - rewrite app_length, firstn_length. cbn [length]. rewrite skipn_length. lia.
Qed.

Lemma add_transform_errors split_d num count sh :
  (count = num -> add_transform split_d num count sh = RuntimeErr) /\
  (count <> num -> length sh <= split_d - 1 -> add_transform split_d num count sh = ValueErr) /\
  (count <> num -> split_d - 1 < length sh -> nth (split_d - 1) sh 0 < 2 -> add_transform split_d num count sh = ValueErr).
Proof.
  unfold add_transform. repeat split.
  - intros ->. rewrite Nat.eqb_refl. reflexivity.
  - intros Hn Hl. destruct (Nat.eqb_spec count num); [contradiction|].
    destruct (Nat.leb_spec (length sh) (split_d - 1)); [reflexivity | lia].
  - intros Hn Hl H2. destruct (Nat.eqb_spec count num); [contradiction|].
    destruct (Nat.leb_spec (length sh) (split_d - 1)); [lia|].
    destruct (Nat.ltb_spec (nth (split_d - 1) sh 0) 2); [reflexivity | lia].
Qed.
