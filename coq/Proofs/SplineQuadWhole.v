(* The WHOLE piecewise-quadratic spline (bounded form, K + 1 unnormalised heights) from any unnormalised parameters: bin widths
   from softmax + affine, node heights exp-like positive, normalised so that the piecewise-linear density integrates to one,
   cumulative table = partial sums of the trapezoid areas, bin lookup by searchsorted, then the bin's quadratic.  For every
   accepted configuration and ALL parameters: every input of the box is accepted and mapped into [bottom, top], the end points
   are pinned, the map is strictly increasing across bins, the log-abs-det is the logarithm of a positive slope, and the inverse
   branch (stable quadratic root) returns a pre-image in the box for every value of [bottom, top]. *)
From Coq Require Import Reals ZArith List Bool Arith Lia Lra Sorted.
From Coquelicot Require Import Coquelicot.
From NF Require Import Base.Ops Base.Rops Base.Result Gen.Utils Gen.SplineQuadratic Model.Utils Model.Vec Model.SplineRQ
  Model.SplineQuadratic Proofs.VecR Proofs.SplineLQP Proofs.UtilsR Proofs.Glue.
Import ListNotations.
Open Scope R_scope.

(* ---- trapezoid areas of a node-height list over a width list ---- *)
Definition trapR (hl hr w : R) : R := (hl + hr) / 2 * w.
Lemma quad_trapezoid_eq hl hr w : quad_trapezoid Rops hl hr w = trapR hl hr w.
Proof. unfold quad_trapezoid, trapR. cbn [Rops o_mul o_div o_add o_ofZ]. reflexivity. Qed.

Lemma trapezoids_cons a b r w ws :
  trapezoids Rops (a :: b :: r) (w :: ws) = quad_trapezoid Rops a b w :: trapezoids Rops (b :: r) ws.
Proof. reflexivity. Qed.

Lemma trapezoids_length (hs ws : list R) : length hs = S (length ws) -> length (trapezoids Rops hs ws) = length ws.
Proof.
  revert hs; induction ws as [|w ws IH]; intros hs H.
  - destruct hs as [|a [|b r]]; simpl in *; try lia; reflexivity.
  - destruct hs as [|a [|b r]]; simpl in H; try lia. rewrite trapezoids_cons. cbn [length]. f_equal. apply IH. simpl. lia.
Qed.

Lemma trapezoids_nth (hs ws : list R) k : length hs = S (length ws) -> (k < length ws)%nat ->
  nth k (trapezoids Rops hs ws) 0 = trapR (nth k hs 0) (nth (S k) hs 0) (nth k ws 0).
Proof.
  revert hs k; induction ws as [|w ws IH]; intros hs k H Hk; [simpl in Hk; lia|].
  destruct hs as [|a [|b r]]; simpl in H; try lia. rewrite trapezoids_cons.
  destruct k as [|k]; [cbn [nth]; apply quad_trapezoid_eq|].
  change (nth (S k) (quad_trapezoid Rops a b w :: trapezoids Rops (b :: r) ws) 0) with (nth k (trapezoids Rops (b :: r) ws) 0).
  rewrite IH by (simpl in *; lia). reflexivity.
Qed.

(* heights m + c * e: the areas are m * w + c * (areas of e) *)
Lemma trapezoids_affine_sum (m c : R) (e ws : list R) : length e = S (length ws) ->
  vsumR (trapezoids Rops (map (fun v => m + c * v) e) ws) = m * vsumR ws + c * vsumR (trapezoids Rops e ws).
Proof.
  revert e; induction ws as [|w ws IH]; intros e H.
  - destruct e as [|a [|b r]]; simpl in H; try lia. cbn. unfold vsumR. cbn. lra.
  - destruct e as [|a [|b r]]; simpl in H; try lia.
    change (map (fun v => m + c * v) (a :: b :: r)) with ((m + c * a) :: (m + c * b) :: map (fun v => m + c * v) r).
    rewrite !trapezoids_cons, !vsum_cons.
    specialize (IH (b :: r) ltac:(simpl; lia)). change (map (fun v => m + c * v) (b :: r)) with ((m + c * b) :: map (fun v => m + c * v) r) in IH.
    rewrite IH. repeat rewrite quad_trapezoid_eq. change (quad_trapezoid Rops a b w) with (trapR a b w). unfold trapR. field.
Qed.

Lemma trapezoids_pos (hs ws : list R) : length hs = S (length ws) ->
  List.Forall (fun v => 0 < v) hs -> List.Forall (fun v => 0 < v) ws -> List.Forall (fun v => 0 < v) (trapezoids Rops hs ws).
Proof.
  revert hs; induction ws as [|w ws IH]; intros hs H Hh Hw.
  - destruct hs as [|a [|b r]]; simpl in H; try lia. constructor.
  - destruct hs as [|a [|b r]]; simpl in H; try lia. rewrite trapezoids_cons.
    inversion Hh as [|? ? Pa Hh']; subst. inversion Hh' as [|? ? Pb Hh'']; subst. inversion Hw as [|? ? Pw Hw']; subst.
    constructor.
    + rewrite quad_trapezoid_eq. unfold trapR. apply Rmult_lt_0_compat; lra.
    + apply IH; [simpl; lia | exact Hh' | exact Hw'].
Qed.

Lemma softplus_pos x : 0 < o_softplus Rops x.
Proof.
  unfold o_softplus. cbn [Rops o_ln o_add o_one o_exp]. rewrite <- ln_1. apply ln_increasing; [lra|]. pose proof (exp_pos x). lra.
Qed.

Lemma quad_fwd_outputs_raw x l w c0 hl hr : 0 <= q_raw l w c0 hl hr x <= 1 ->
  quad_fwd_outputs Rops x l w c0 hl hr (qa l w c0 hl hr) (qb l w c0 hl hr) (qc l w c0 hl hr) = q_raw l w c0 hl hr x.
Proof.
  intros H. unfold quad_fwd_outputs, o_sq. cbn [Rops o_add o_mul o_div o_sub o_ofZ]. change (IZR 0) with 0. change (IZR 1) with 1.
  rewrite clamp01_id; [reflexivity|]. exact H.
Qed.

(* the two cumulative tables are the partial sums (the pinned last entries are already 1) *)
Lemma pinned (l : list R) : l <> [] -> vsumR l = 1 -> 0 :: set_last 1 (cumsum Rops l) = 0 :: cumsum Rops l.
Proof.
  intros Hne Hs. f_equal. apply set_last_same.
  - rewrite last_nth, cumsum_length. assert (0 < length l)%nat by (destruct l; [congruence | simpl; lia]).
    rewrite cumsum_nth by lia. replace (S (length l - 1)) with (length l) by lia. rewrite psum_all. exact Hs.
  - intro E. apply (f_equal (@length R)) in E. rewrite cumsum_length in E. destruct l; [congruence | simpl in E; lia].
Qed.

Lemma elem_le_vsum (l : list R) k : List.Forall (fun v => 0 < v) l -> (k < length l)%nat -> nth k l 0 <= vsumR l.
Proof.
  revert k; induction l as [|a l IH]; intros k H Hk; [simpl in Hk; lia|].
  inversion H as [|? ? Pa Hl]; subst. rewrite vsum_cons. pose proof (vsum_nonneg l Hl) as N.
  destruct k as [|k]; [cbn [nth]; lra|]. cbn [nth]. specialize (IH k Hl ltac:(simpl in Hk; lia)). lra.
Qed.

Section QWhole.
  Variables (minw minh : R) (bx : @box R) (uw uh : list R).
  Let K := length uw.
  (* K + 1 node heights (bounded form), or K - 1 with the boundary constant computed by the code (the form the tails wrapper uses;
     it needs at least two bins - with one bin the code indexes into an empty tensor) *)
  Hypothesis (HK : uw <> []) (Hlh : length uh = S K \/ (length uh = (K - 1)%nat /\ (2 <= K)%nat))
             (Hw0 : 0 <= minw) (HwK : minw * INR K <= 1) (Hh0 : 0 <= minh) (HhK : minh * INR K <= 1)
             (Hlr : b_left bx < b_right bx) (Hbt : b_bottom bx < b_top bx).

  Let ws := q_widths Rops minw uw.
  Let e0 := map (quad_unnorm_height Rops) uh.
  Let e := q_unnorm_heights Rops ws uh.
  Let area := vsumR (trapezoids Rops e ws).
  Let hs := q_heights Rops minh ws uh.
  Let traps := trapezoids Rops hs ws.

  Lemma qK_pos : (0 < K)%nat.
  Proof. unfold K. destruct uw; [congruence | simpl; lia]. Qed.

  Lemma Hh1 : minh <= 1.
  Proof.
    assert (1 <= INR K) by (change 1 with (INR 1); apply le_INR; pose proof qK_pos; lia). nra.
  Qed.

  Lemma ws_length : length ws = K.
  Proof. unfold ws, q_widths. rewrite map_length, softmax_length. reflexivity. Qed.

  Lemma IZR_nat (n : nat) : IZR (Z.of_nat n) = INR n.
  Proof. symmetry. apply INR_IZR_INZ. Qed.

  Lemma ws_pos : List.Forall (fun v => 0 < v) ws.
  Proof.
    unfold ws, q_widths. rewrite Forall_forall. intros v Hv. rewrite in_map_iff in Hv. destruct Hv as [s [<- Hs]].
    pose proof (softmax_pos uw HK) as P. rewrite Forall_forall in P. specialize (P s Hs).
    unfold quad_width_affine. cbn [o_add o_mul o_sub o_ofZ Rops]. rewrite IZR_nat. fold K. change (IZR 1) with 1.
    destruct (Rle_lt_or_eq_dec 0 minw Hw0) as [Hp|<-].
    - assert (0 <= (1 - minw * INR K) * s) by (apply Rmult_le_pos; lra). lra.
    - nra.
  Qed.

  Lemma ws_sum : vsumR ws = 1.
  Proof.
    unfold ws, q_widths, quad_width_affine. cbn [o_add o_mul o_sub o_ofZ Rops]. rewrite IZR_nat. fold K. change (IZR 1) with 1.
    rewrite (vsum_map_affine minw (1 - minw * INR K)). rewrite softmax_length, softmax_sum by exact HK. fold K. lra.
  Qed.

  Lemma ws_nth_pos k : (k < K)%nat -> 0 < nth k ws 0.
  Proof. intros Hk. pose proof ws_pos as P. rewrite Forall_forall in P. apply P. apply nth_In. rewrite ws_length. exact Hk. Qed.

  Lemma e0_pos : List.Forall (fun v => 0 < v) e0.
  Proof.
    unfold e0. rewrite Forall_forall. intros v Hv. rewrite in_map_iff in Hv. destruct Hv as [s [<- _]].
    unfold quad_unnorm_height, o_lit. cbn [o_add o_div o_ofZ Rops]. pose proof (softplus_pos s). change (IZR 1) with 1. lra.
  Qed.

  Lemma removelast_len (l : list R) : length (removelast l) = (length l - 1)%nat.
  Proof.
    destruct l as [|b l]; [reflexivity|].
    pose proof (app_removelast_last 0 (l := b :: l) ltac:(discriminate)) as E.
    apply (f_equal (@length R)) in E. rewrite app_length in E. cbn [length] in E. cbn [length]. lia.
  Qed.

  Lemma inner_length (l : list R) : length (inner l) = (length l - 2)%nat.
  Proof.
    unfold inner. rewrite removelast_len. destruct l as [|a l]; [reflexivity|]. cbn [tl length]. lia.
  Qed.

  Lemma inner_pos (l : list R) : List.Forall (fun v => 0 < v) l -> List.Forall (fun v => 0 < v) (inner l).
  Proof.
    intros H. rewrite Forall_forall in *. intros v Hv. apply H. unfold inner in Hv.
    destruct l as [|a l]; [inversion Hv|]. cbn [tl] in Hv. right.
    destruct l as [|b l]; [inversion Hv|]. 
    assert (In v (removelast (b :: l) ++ [last (b :: l) 0])) by (apply in_or_app; left; exact Hv).
    rewrite <- app_removelast_last in H0 by discriminate. exact H0.
  Qed.

  Lemma vsum_nonneg_R (l : list R) : List.Forall (fun v => 0 < v) l -> 0 <= vsumR l.
  Proof. apply vsum_nonneg. Qed.

  Lemma ws_le_1 k : (k < K)%nat -> nth k ws 0 <= 1.
  Proof. intros Hk. rewrite <- ws_sum. apply elem_le_vsum; [apply ws_pos | rewrite ws_length; exact Hk]. Qed.

  Lemma e_facts : length e = S K /\ List.Forall (fun v => 0 < v) e.
  Proof.
    unfold e, q_unnorm_heights. fold e0. pose proof e0_pos as P0.
    assert (L0 : length e0 = length uh) by (unfold e0; apply map_length).
    destruct Hlh as [H|[H K2]].
    - assert (E : Nat.eqb (length e0) (length ws - 1) = false) by (apply Nat.eqb_neq; rewrite L0, H, ws_length; lia).
      rewrite E. split; [rewrite L0; exact H | exact P0].
    - assert (E : Nat.eqb (length e0) (length ws - 1) = true) by (apply Nat.eqb_eq; rewrite L0, H, ws_length; reflexivity).
      rewrite E. split.
      + cbn [length]. rewrite app_length. cbn [length]. rewrite L0, H. lia.
      + (* the boundary constant is positive *)
        set (c := quad_boundary_constant Rops (nthT Rops 0 ws) (last ws (o_zero Rops)) (nthT Rops 0 e0) (last e0 (o_zero Rops))
                    (vsum Rops (trapezoids Rops e0 (inner ws)))).
        assert (Pc : 0 < c).
        { unfold c, quad_boundary_constant, o_lit, nthT. cbn [Rops o_mul o_div o_add o_sub o_ofZ o_zero].
          change (IZR 1) with 1. change (IZR 2) with 2.
          pose proof (ws_nth_pos 0 ltac:(lia)) as W0. pose proof (ws_le_1 0 ltac:(lia)) as W0'.
          assert (WL : 0 < last ws 0 <= 1).
          { rewrite last_nth, ws_length. split; [apply ws_nth_pos; lia | apply ws_le_1; lia]. }
          assert (E0 : 0 < nth 0 e0 0).
          { rewrite Forall_forall in P0. apply P0. apply nth_In. rewrite L0, H. lia. }
          assert (EL : 0 < last e0 0).
          { rewrite last_nth. rewrite Forall_forall in P0. apply P0. apply nth_In. rewrite L0, H. lia. }
          assert (IS : 0 <= vsumR (trapezoids Rops e0 (inner ws))).
          { apply vsum_nonneg. apply trapezoids_pos; [rewrite inner_length, L0, H, ws_length; lia | exact P0 | apply inner_pos; apply ws_pos]. }
          apply Rdiv_lt_0_compat; nra. }
        constructor; [exact Pc|]. apply Forall_app. split; [exact P0 | constructor; [exact Pc | constructor]].
  Qed.

  Lemma e_length : length e = S K. Proof. apply e_facts. Qed.
  Lemma e_pos : List.Forall (fun v => 0 < v) e. Proof. apply e_facts. Qed.

  Lemma area_pos : 0 < area.
  Proof.
    unfold area. apply vsum_pos.
    - intro E. apply (f_equal (@length R)) in E. rewrite trapezoids_length in E by (rewrite e_length, ws_length; reflexivity).
      rewrite ws_length in E. simpl in E. pose proof qK_pos. lia.
    - apply trapezoids_pos; [rewrite e_length, ws_length; reflexivity | apply e_pos | apply ws_pos].
  Qed.

  Lemma hs_eq : hs = map (fun v => minh + (1 - minh) / area * v) e.
  Proof.
    unfold hs, q_heights. fold e. fold area. apply map_ext. intros v.
    unfold quad_height_affine. cbn [o_add o_mul o_sub o_div o_ofZ Rops]. change (IZR 1) with 1. pose proof area_pos. field. lra.
  Qed.

  Lemma hs_length : length hs = S K.
  Proof. rewrite hs_eq, map_length. apply e_length. Qed.

  Lemma hs_pos : List.Forall (fun v => 0 < v) hs.
  Proof.
    rewrite hs_eq. rewrite Forall_forall. intros v Hv. rewrite in_map_iff in Hv. destruct Hv as [s [<- Hs]].
    pose proof e_pos as P. rewrite Forall_forall in P. specialize (P s Hs). pose proof area_pos as A.
    assert (Q : 0 < s / area) by (apply Rdiv_lt_0_compat; assumption).
    replace ((1 - minh) / area * s) with ((1 - minh) * (s / area)) by (field; lra).
    pose proof Hh1 as Hh1.
    destruct (Rle_lt_or_eq_dec 0 minh Hh0) as [Hp|<-].
    - assert (0 <= (1 - minh) * (s / area)) by (apply Rmult_le_pos; lra). lra.
    - lra.
  Qed.

  Lemma hs_nth_pos k : (k <= K)%nat -> 0 < nth k hs 0.
  Proof. intros Hk. pose proof hs_pos as P. rewrite Forall_forall in P. apply P. apply nth_In. rewrite hs_length. lia. Qed.


  Lemma traps_length : length traps = K.
  Proof. unfold traps. rewrite trapezoids_length by (rewrite hs_length, ws_length; reflexivity). apply ws_length. Qed.

  Lemma traps_pos : List.Forall (fun v => 0 < v) traps.
  Proof. unfold traps. apply trapezoids_pos; [rewrite hs_length, ws_length; reflexivity | apply hs_pos | apply ws_pos]. Qed.

  Lemma traps_sum : vsumR traps = 1.
  Proof.
    unfold traps. rewrite hs_eq. rewrite trapezoids_affine_sum by (rewrite e_length, ws_length; reflexivity).
    rewrite ws_sum. fold area. pose proof area_pos. field. lra.
  Qed.

  Lemma traps_nth k : (k < K)%nat -> nth k traps 0 = trapR (nth k hs 0) (nth (S k) hs 0) (nth k ws 0).
  Proof. intros Hk. unfold traps. apply trapezoids_nth; [rewrite hs_length, ws_length; reflexivity | rewrite ws_length; exact Hk]. Qed.

  Lemma ws_ne : ws <> [].
  Proof. intro E. apply (f_equal (@length R)) in E. rewrite ws_length in E. simpl in E. pose proof qK_pos. lia. Qed.
  Lemma traps_ne : traps <> [].
  Proof. intro E. apply (f_equal (@length R)) in E. rewrite traps_length in E. simpl in E. pose proof qK_pos. lia. Qed.

  Lemma locs_eq : q_locations Rops ws = 0 :: cumsum Rops ws.
  Proof. unfold q_locations. cbn [o_zero o_ofZ Rops]. change (IZR 1) with 1. apply pinned; [apply ws_ne | apply ws_sum]. Qed.
  Lemma cdf_eq : q_left_cdf Rops hs ws = 0 :: cumsum Rops traps.
  Proof. unfold q_left_cdf. cbn [o_zero o_ofZ Rops]. change (IZR 1) with 1. fold traps. apply pinned; [apply traps_ne | apply traps_sum]. Qed.

  Definition lk (k : nat) : R := psum ws k.
  Definition ck (k : nat) : R := psum traps k.

  Lemma locs_nth k : (k <= K)%nat -> nth k (q_locations Rops ws) 0 = lk k.
  Proof. intros Hk. rewrite locs_eq. apply zcumsum_nth. rewrite ws_length. exact Hk. Qed.
  Lemma cdf_nth_q k : (k <= K)%nat -> nth k (q_left_cdf Rops hs ws) 0 = ck k.
  Proof. intros Hk. rewrite cdf_eq. apply zcumsum_nth. rewrite traps_length. exact Hk. Qed.
  Lemma locs_length : length (q_locations Rops ws) = S K.
  Proof. rewrite locs_eq. cbn [length]. rewrite cumsum_length, ws_length. reflexivity. Qed.
  Lemma cdf_length_q : length (q_left_cdf Rops hs ws) = S K.
  Proof. rewrite cdf_eq. cbn [length]. rewrite cumsum_length, traps_length. reflexivity. Qed.

  Lemma lk_increasing i j : (i < j)%nat -> (j <= K)%nat -> lk i < lk j.
  Proof. intros Hij Hj. unfold lk. apply psum_lt; [apply ws_pos | exact Hij | rewrite ws_length; exact Hj]. Qed.
  Lemma ck_increasing i j : (i < j)%nat -> (j <= K)%nat -> ck i < ck j.
  Proof. intros Hij Hj. unfold ck. apply psum_lt; [apply traps_pos | exact Hij | rewrite traps_length; exact Hj]. Qed.
  Lemma lk_0 : lk 0 = 0. Proof. apply psum_0. Qed.
  Lemma ck_0 : ck 0 = 0. Proof. apply psum_0. Qed.
  Lemma lk_K : lk K = 1. Proof. unfold lk. rewrite <- ws_length, psum_all. apply ws_sum. Qed.
  Lemma ck_K : ck K = 1. Proof. unfold ck. rewrite <- traps_length, psum_all. apply traps_sum. Qed.
  Lemma lk_S k : (k < K)%nat -> lk (S k) = lk k + nth k ws 0.
  Proof. intros Hk. unfold lk. apply psum_S. rewrite ws_length. exact Hk. Qed.
  Lemma ck_S k : (k < K)%nat -> ck (S k) = ck k + trapR (nth k hs 0) (nth (S k) hs 0) (nth k ws 0).
  Proof. intros Hk. unfold ck. rewrite psum_S by (rewrite traps_length; exact Hk). rewrite traps_nth by exact Hk. reflexivity. Qed.

  Lemma locs_sorted : StronglySorted Rlt (q_locations Rops ws).
  Proof. apply sorted_of_nth. intros i j Hij Hj. rewrite locs_length in Hj. rewrite !locs_nth by lia. apply lk_increasing; lia. Qed.
  Lemma cdf_sorted_q : StronglySorted Rlt (q_left_cdf Rops hs ws).
  Proof. apply sorted_of_nth. intros i j Hij Hj. rewrite cdf_length_q in Hj. rewrite !cdf_nth_q by lia. apply ck_increasing; lia. Qed.

  (* ---- the forward direction on an input of the box ---- *)
  Definition qxnorm (x : R) : R := (x - b_left bx) / (b_right bx - b_left bx).
  Lemma qxnorm_range x : b_left bx <= x <= b_right bx -> 0 <= qxnorm x <= 1.
  Proof.
    intros [A B]. unfold qxnorm. split.
    - apply Rmult_le_pos; [lra | left; apply Rinv_0_lt_compat; lra].
    - apply (Rmult_le_reg_r (b_right bx - b_left bx)); [lra|]. unfold Rdiv. rewrite Rmult_assoc, Rinv_l by lra. lra.
  Qed.

  Definition rawk (k : nat) (xn : R) : R := q_raw (lk k) (nth k ws 0) (ck k) (nth k hs 0) (nth (S k) hs 0) xn.
  Definition slopek (k : nat) (xn : R) : R := q_slope (lk k) (nth k ws 0) (nth k hs 0) (nth (S k) hs 0) xn.

  Lemma rawk_ends k : (k < K)%nat -> rawk k (lk k) = ck k /\ rawk k (lk (S k)) = ck (S k).
  Proof.
    intros Hk. pose proof (ws_nth_pos k Hk) as Pw.
    destruct (q_raw_ends (lk k) (nth k ws 0) (ck k) (nth k hs 0) (nth (S k) hs 0) Pw) as [E1 E2].
    unfold rawk. rewrite lk_S, ck_S by exact Hk. split; [exact E1 | rewrite E2; unfold trapR; reflexivity].
  Qed.

  Lemma rawk_increasing k a b : (k < K)%nat -> lk k <= a -> a < b -> b <= lk (S k) -> rawk k a < rawk k b.
  Proof.
    intros Hk Ha Hab Hb. unfold rawk. rewrite lk_S in Hb by exact Hk.
    apply q_raw_increasing; try assumption; [apply ws_nth_pos; exact Hk | apply hs_nth_pos; lia | apply hs_nth_pos; lia].
  Qed.

  Lemma rawk_range k xn : (k < K)%nat -> lk k <= xn <= lk (S k) -> ck k <= rawk k xn <= ck (S k).
  Proof.
    intros Hk [A B]. destruct (rawk_ends k Hk) as [E1 E2]. split.
    - destruct (Rle_lt_or_eq_dec _ _ A) as [L|Eq]; [|rewrite <- Eq, E1; lra].
      rewrite <- E1. left. apply rawk_increasing; try assumption; lra.
    - destruct (Rle_lt_or_eq_dec _ _ B) as [L|Eq]; [|rewrite Eq, E2; lra].
      rewrite <- E2. left. apply rawk_increasing; try assumption; lra.
  Qed.

  Lemma ck_bounds k : (k <= K)%nat -> 0 <= ck k <= 1.
  Proof.
    intros Hk. split.
    - destruct k as [|k]; [rewrite ck_0; lra|]. rewrite <- ck_0. left. apply ck_increasing; lia.
    - destruct (Nat.eq_dec k K) as [->|N]; [rewrite ck_K; lra|]. rewrite <- ck_K. left. apply ck_increasing; lia.
  Qed.

  Lemma q_forward_in_bin x : b_left bx <= x <= b_right bx ->
    exists k, (k < K)%nat /\ lk k <= qxnorm x /\ (qxnorm x < lk (S k) \/ S k = K) /\ qxnorm x <= lk (S k) /\
      quadratic_spline Rops minw minh false bx uw uh x
      = Ok (rawk k (qxnorm x) * (b_top bx - b_bottom bx) + b_bottom bx,
            ln (slopek k (qxnorm x)) + ln (b_top bx - b_bottom bx) - ln (b_right bx - b_left bx)).
  Proof.
    intros Hx. pose proof (qxnorm_range x Hx) as Hn. pose proof qK_pos as KP.
    assert (H0 : nth 0 (q_locations Rops ws) 0 = 0) by (rewrite locs_nth by lia; apply lk_0).
    assert (H1 : nth K (q_locations Rops ws) 0 = 1) by (rewrite locs_nth by lia; apply lk_K).
    destruct (searchsorted_spec (q_locations Rops ws) (qxnorm x) K locs_length KP locs_sorted) as [k [Ek [HkK [Hge Hlt]]]]; [rewrite H0, H1; exact Hn|].
    rewrite locs_nth in Hge by lia. rewrite locs_nth in Hlt by lia.
    exists k. split; [exact HkK|]. split; [exact Hge|]. split; [exact Hlt|].
    assert (Hle : qxnorm x <= lk (S k)).
    { destruct Hlt as [L|E]; [lra|]. rewrite E, lk_K. lra. }
    split; [exact Hle|].
    unfold quadratic_spline. cbn [quad_bounds]. unfold quad_rejects. cbn [o_ltb Rops].
    assert (R1 : Rltb x (b_left bx) = false) by (apply Rltb_false; lra).
    assert (R2 : Rltb (b_right bx) x = false) by (apply Rltb_false; lra).
    rewrite R1, R2. cbn [orb]. fold K. cbn [o_one o_mul o_ofZ Rops]. rewrite IZR_nat.
    assert (R3 : Rltb 1 (minw * INR K) = false) by (apply Rltb_false; exact HwK).
    assert (R4 : Rltb 1 (minh * INR K) = false) by (apply Rltb_false; exact HhK).
    change (IZR 1) with 1. rewrite R3, R4. fold ws. fold hs.
    unfold quad_fwd_normalise_inputs. cbn [Rops o_div o_sub]. fold (qxnorm x).
    rewrite Ek, Nat2Z.id. assert (R5 : Nat.leb K k = false) by (apply Nat.leb_gt; exact HkK). rewrite R5.
    unfold nthT. cbn [o_zero Rops]. rewrite (locs_nth k) by lia. rewrite (cdf_nth_q k) by lia.
    set (xn := qxnorm x) in *.
    pose proof (rawk_range k xn HkK (conj Hge Hle)) as [Ra Rb].
    pose proof (ck_bounds k ltac:(lia)) as [C0 _]. pose proof (ck_bounds (S k) ltac:(lia)) as [_ C1].
    change (quad_coef_a Rops xn (lk k) (nth k ws 0) (ck k) (nth k hs 0) (nth (S k) hs 0)) with (qa (lk k) (nth k ws 0) (ck k) (nth k hs 0) (nth (S k) hs 0)).
    change (quad_coef_b Rops xn (lk k) (nth k ws 0) (ck k) (nth k hs 0) (nth (S k) hs 0)) with (qb (lk k) (nth k ws 0) (ck k) (nth k hs 0) (nth (S k) hs 0)).
    change (quad_coef_c Rops xn (lk k) (nth k ws 0) (ck k) (nth k hs 0) (nth (S k) hs 0)) with (qc (lk k) (nth k ws 0) (ck k) (nth k hs 0) (nth (S k) hs 0)).
    rewrite quad_fwd_outputs_raw by (fold (rawk k xn); lra).
    rewrite q_lad_is_ln_slope.
    unfold quad_fwd_denormalise_outputs, quad_fwd_denormalise_logabsdet. cbn [Rops o_add o_mul o_sub o_ln]. reflexivity.
  Qed.

  Definition QF (x : R) : R := match quadratic_spline Rops minw minh false bx uw uh x with Ok (y, _) => y | _ => 0 end.
  Definition QFlad (x : R) : R := match quadratic_spline Rops minw minh false bx uw uh x with Ok (_, l) => l | _ => 0 end.

  Lemma slopek_pos k xn : (k < K)%nat -> lk k <= xn <= lk (S k) -> 0 < slopek k xn.
  Proof.
    intros Hk Hx. unfold slopek. rewrite lk_S in Hx by exact Hk.
    apply q_slope_pos; [apply ws_nth_pos; exact Hk | apply hs_nth_pos; lia | apply hs_nth_pos; lia | exact Hx].
  Qed.

  Lemma q_bin_unique (g : nat -> R) (v : R) i j :
    (forall a b, (a < b)%nat -> (b <= K)%nat -> g a < g b) ->
    (i < K)%nat -> (j < K)%nat -> g i <= v -> (v < g (S i) \/ S i = K) -> g j <= v -> (v < g (S j) \/ S j = K) -> i = j.
  Proof.
    intros Hinc Hi Hj A1 A2 B1 B2. destruct (lt_eq_lt_dec i j) as [[L|E]|L]; [|exact E|]; exfalso.
    - destruct A2 as [A2|A2]; [|lia].
      assert (g (S i) <= g j). { destruct (Nat.eq_dec (S i) j) as [<-|N]; [lra|]. left. apply Hinc; lia. } lra.
    - destruct B2 as [B2|B2]; [|lia].
      assert (g (S j) <= g i). { destruct (Nat.eq_dec (S j) i) as [<-|N]; [lra|]. left. apply Hinc; lia. } lra.
  Qed.

  (* accepted, inside [bottom, top], log-abs-det = ln of a positive slope; end points pinned; strictly increasing *)
  Theorem quadratic_whole :
    (forall x, b_left bx <= x <= b_right bx ->
       exists y l, quadratic_spline Rops minw minh false bx uw uh x = Ok (y, l) /\ (b_bottom bx <= y <= b_top bx) /\ (exists d, 0 < d /\ l = ln d)) /\
    (QF (b_left bx) = b_bottom bx /\ QF (b_right bx) = b_top bx) /\
    (forall a b, b_left bx <= a -> a < b -> b <= b_right bx -> QF a < QF b).
  Proof.
    split; [|split].
    - intros x Hx. destruct (q_forward_in_bin x Hx) as [k [Hk [Hge [Hlt [Hle E]]]]].
      eexists. eexists. split; [exact E|].
      pose proof (rawk_range k (qxnorm x) Hk (conj Hge Hle)) as [Ra Rb].
      pose proof (ck_bounds k ltac:(lia)) as [C0 _]. pose proof (ck_bounds (S k) ltac:(lia)) as [_ C1].
      split; [nra|].
      pose proof (slopek_pos k (qxnorm x) Hk (conj Hge Hle)) as Ps.
      exists (slopek k (qxnorm x) * (b_top bx - b_bottom bx) / (b_right bx - b_left bx)). split.
      + apply Rdiv_lt_0_compat; [|lra]. apply Rmult_lt_0_compat; [exact Ps | lra].
      + unfold Rdiv. rewrite ln_mult; [| apply Rmult_lt_0_compat; [exact Ps | lra] | apply Rinv_0_lt_compat; lra].
        rewrite ln_mult; [| exact Ps | lra]. rewrite ln_Rinv by lra. lra.
    - split.
      + destruct (q_forward_in_bin (b_left bx) ltac:(lra)) as [k [Hk [Hge [Hlt [Hle E]]]]]. unfold QF. rewrite E.
        assert (En : qxnorm (b_left bx) = 0) by (unfold qxnorm; field; lra). rewrite En in *.
        assert (k = 0%nat).
        { destruct k as [|k]; [reflexivity|]. exfalso. assert (lk 0 < lk (S k)) by (apply lk_increasing; lia). rewrite lk_0 in H. lra. }
        subst k. rewrite <- lk_0 at 1. destruct (rawk_ends 0 Hk) as [E1 _]. rewrite E1, ck_0. lra.
      + destruct (q_forward_in_bin (b_right bx) ltac:(lra)) as [k [Hk [Hge [Hlt [Hle E]]]]]. unfold QF. rewrite E.
        assert (En : qxnorm (b_right bx) = 1) by (unfold qxnorm; field; lra). rewrite En in *.
        assert (S k = K).
        { destruct Hlt as [L|Eq]; [|exact Eq]. exfalso.
          assert (lk (S k) <= lk K). { destruct (Nat.eq_dec (S k) K) as [->|N]; [lra|]. left. apply lk_increasing; lia. }
          rewrite lk_K in H. lra. }
        assert (E1 : lk (S k) = 1) by (rewrite H; apply lk_K).
        rewrite <- E1 at 1. destruct (rawk_ends k Hk) as [_ E2]. rewrite E2, H, ck_K. lra.
    - intros a b Ha Hab Hb.
      destruct (q_forward_in_bin a ltac:(lra)) as [ka [Hka [Ga [La [Lea Ea]]]]].
      destruct (q_forward_in_bin b ltac:(lra)) as [kb [Hkb [Gb [Lb [Leb Eb]]]]].
      unfold QF. rewrite Ea, Eb.
      assert (Hn : qxnorm a < qxnorm b) by (unfold qxnorm; apply Rmult_lt_compat_r; [apply Rinv_0_lt_compat; lra | lra]).
      assert (rawk ka (qxnorm a) < rawk kb (qxnorm b)); [|nra].
      destruct (lt_eq_lt_dec ka kb) as [[L|E]|L].
      + (* an earlier bin *)
        pose proof (rawk_range kb (qxnorm b) Hkb (conj Gb Leb)) as [Rb _].
        assert (Hs : rawk ka (qxnorm a) < ck (S ka)).
        { destruct La as [La|La]; [|lia]. destruct (rawk_ends ka Hka) as [_ E2]. rewrite <- E2.
          apply rawk_increasing; try assumption; lra. }
        assert (ck (S ka) <= ck kb). { destruct (Nat.eq_dec (S ka) kb) as [->|N]; [lra|]. left. apply ck_increasing; lia. }
        lra.
      + subst kb. apply rawk_increasing; try assumption.
      + exfalso. destruct Lb as [Lb|Lb]; [|lia].
        assert (lk (S kb) <= lk ka). { destruct (Nat.eq_dec (S kb) ka) as [->|N]; [lra|]. left. apply lk_increasing; lia. }
        lra.
  Qed.

  (* ---- the inverse direction: searchsorted on the cumulative areas, then the stable root of the bin's quadratic ---- *)
  Definition qynorm (y : R) : R := (y - b_bottom bx) / (b_top bx - b_bottom bx).
  Lemma qynorm_range y : b_bottom bx <= y <= b_top bx -> 0 <= qynorm y <= 1.
  Proof.
    intros [A B]. unfold qynorm. split.
    - apply Rmult_le_pos; [lra | left; apply Rinv_0_lt_compat; lra].
    - apply (Rmult_le_reg_r (b_top bx - b_bottom bx)); [lra|]. unfold Rdiv. rewrite Rmult_assoc, Rinv_l by lra. lra.
  Qed.

  Definition alphak (k : nat) (yn : R) : R := q_alpha (lk k) (nth k ws 0) (ck k) (nth k hs 0) (nth (S k) hs 0) yn.
  Definition invk (k : nat) (yn : R) : R := lk k + alphak k yn * nth k ws 0.

  Lemma invk_facts k yn : (k < K)%nat -> ck k <= yn <= ck (S k) ->
    lk k <= invk k yn <= lk (S k) /\ rawk k (invk k yn) = yn /\ slopek k (invk k yn) = alphak k yn * (nth (S k) hs 0 - nth k hs 0) + nth k hs 0.
  Proof.
    intros Hk Hy. pose proof (ws_nth_pos k Hk) as Pw. pose proof (hs_nth_pos k ltac:(lia)) as Pl.
    rewrite ck_S in Hy by exact Hk. unfold trapR in Hy.
    destruct (q_alpha_correct (lk k) (nth k ws 0) (ck k) (nth k hs 0) (nth (S k) hs 0) yn Pw Pl Hy) as [[A0 A1] _].
    pose proof (q_forward_of_inverse (lk k) (nth k ws 0) (ck k) (nth k hs 0) (nth (S k) hs 0) yn Pw Pl Hy) as Ef.
    fold (alphak k yn) in A0, A1, Ef. unfold invk. rewrite lk_S by exact Hk. split; [split; nra|]. split; [exact Ef|].
    unfold slopek, q_slope. replace ((lk k + alphak k yn * nth k ws 0 - lk k) / nth k ws 0) with (alphak k yn) by (field; lra). reflexivity.
  Qed.

  Lemma q_inverse_in_bin y : b_bottom bx <= y <= b_top bx ->
    exists k, (k < K)%nat /\ ck k <= qynorm y /\ (qynorm y < ck (S k) \/ S k = K) /\ qynorm y <= ck (S k) /\
      quadratic_spline Rops minw minh true bx uw uh y
      = Ok (invk k (qynorm y) * (b_right bx - b_left bx) + b_left bx,
            - ln (slopek k (invk k (qynorm y))) + ln (b_right bx - b_left bx) - ln (b_top bx - b_bottom bx)).
  Proof.
    intros Hy. pose proof (qynorm_range y Hy) as Hn. pose proof qK_pos as KP.
    assert (H0 : nth 0 (q_left_cdf Rops hs ws) 0 = 0) by (rewrite cdf_nth_q by lia; apply ck_0).
    assert (H1 : nth K (q_left_cdf Rops hs ws) 0 = 1) by (rewrite cdf_nth_q by lia; apply ck_K).
    destruct (searchsorted_spec (q_left_cdf Rops hs ws) (qynorm y) K cdf_length_q KP cdf_sorted_q) as [k [Ek [HkK [Hge Hlt]]]]; [rewrite H0, H1; exact Hn|].
    rewrite cdf_nth_q in Hge by lia. rewrite cdf_nth_q in Hlt by lia.
    exists k. split; [exact HkK|]. split; [exact Hge|]. split; [exact Hlt|].
    assert (Hle : qynorm y <= ck (S k)).
    { destruct Hlt as [L|E]; [lra|]. rewrite E, ck_K. lra. }
    split; [exact Hle|].
    unfold quadratic_spline. cbn [quad_bounds]. unfold quad_rejects. cbn [o_ltb Rops].
    assert (R1 : Rltb y (b_bottom bx) = false) by (apply Rltb_false; lra).
    assert (R2 : Rltb (b_top bx) y = false) by (apply Rltb_false; lra).
    rewrite R1, R2. cbn [orb]. fold K. cbn [o_one o_mul o_ofZ Rops]. rewrite IZR_nat.
    assert (R3 : Rltb 1 (minw * INR K) = false) by (apply Rltb_false; exact HwK).
    assert (R4 : Rltb 1 (minh * INR K) = false) by (apply Rltb_false; exact HhK).
    change (IZR 1) with 1. rewrite R3, R4. fold ws. fold hs.
    unfold quad_inv_normalise_inputs. cbn [Rops o_div o_sub]. fold (qynorm y).
    rewrite Ek, Nat2Z.id. assert (R5 : Nat.leb K k = false) by (apply Nat.leb_gt; exact HkK). rewrite R5.
    unfold nthT. cbn [o_zero Rops]. rewrite (locs_nth k) by lia. rewrite (cdf_nth_q k) by lia.
    set (yn := qynorm y) in *.
    destruct (invk_facts k yn HkK (conj Hge Hle)) as [[Ia Ib] [_ Es]].
    pose proof (lk_increasing 0 (S k) ltac:(lia) ltac:(lia)) as L0. rewrite lk_0 in L0.
    assert (L1 : lk (S k) <= 1). { destruct (Nat.eq_dec (S k) K) as [->|N]; [rewrite lk_K; lra|]. rewrite <- lk_K. left. apply lk_increasing; lia. }
    assert (L2 : 0 <= lk k). { destruct k as [|k']; [rewrite lk_0; lra|]. rewrite <- lk_0. left. apply lk_increasing; lia. }
    change (quad_coef_a Rops yn (lk k) (nth k ws 0) (ck k) (nth k hs 0) (nth (S k) hs 0)) with (qa (lk k) (nth k ws 0) (ck k) (nth k hs 0) (nth (S k) hs 0)).
    change (quad_coef_b Rops yn (lk k) (nth k ws 0) (ck k) (nth k hs 0) (nth (S k) hs 0)) with (qb (lk k) (nth k ws 0) (ck k) (nth k hs 0) (nth (S k) hs 0)).
    change (quad_coef_c Rops yn (lk k) (nth k ws 0) (ck k) (nth k hs 0) (nth (S k) hs 0)) with (qc (lk k) (nth k ws 0) (ck k) (nth k hs 0) (nth (S k) hs 0)).
    assert (Eo : quad_inv_outputs Rops yn (lk k) (nth k ws 0) (ck k) (nth k hs 0) (nth (S k) hs 0)
                   (qa (lk k) (nth k ws 0) (ck k) (nth k hs 0) (nth (S k) hs 0)) (qb (lk k) (nth k ws 0) (ck k) (nth k hs 0) (nth (S k) hs 0))
                   (qc (lk k) (nth k ws 0) (ck k) (nth k hs 0) (nth (S k) hs 0)) = invk k yn).
    { unfold quad_inv_outputs. change (IZR 0) with 0. change (IZR 1) with 1.
      change (o_clamp Rops (alphak k yn * nth k ws 0 + lk k) 0 1 = invk k yn).
      rewrite clamp01_id; [unfold invk; ring | unfold invk in Ia, Ib; lra]. }
    assert (El : quad_inv_logabsdet Rops yn (lk k) (nth k ws 0) (ck k) (nth k hs 0) (nth (S k) hs 0)
                   (qa (lk k) (nth k ws 0) (ck k) (nth k hs 0) (nth (S k) hs 0)) (qb (lk k) (nth k ws 0) (ck k) (nth k hs 0) (nth (S k) hs 0))
                   (qc (lk k) (nth k ws 0) (ck k) (nth k hs 0) (nth (S k) hs 0)) = - ln (slopek k (invk k yn))).
    { rewrite Es. reflexivity. }
    rewrite Eo, El.
    unfold quad_inv_denormalise_outputs, quad_inv_denormalise_logabsdet. cbn [Rops o_add o_mul o_sub o_ln]. reflexivity.
  Qed.

  (* forward (inverse y) = y with the negated log-abs-det: the spline is ONTO [bottom, top] *)
  Theorem quadratic_forward_of_inverse y : b_bottom bx <= y <= b_top bx ->
    exists x l, quadratic_spline Rops minw minh true bx uw uh y = Ok (x, l) /\ (b_left bx <= x <= b_right bx) /\ QF x = y /\ l = - QFlad x.
  Proof.
    intros Hy. destruct (q_inverse_in_bin y Hy) as [k [Hk [Hge [Hlt [Hle E]]]]].
    set (yn := qynorm y) in *. destruct (invk_facts k yn Hk (conj Hge Hle)) as [[Ia Ib] [Er Es]].
    set (xn := invk k yn) in *. set (x := xn * (b_right bx - b_left bx) + b_left bx).
    pose proof (lk_increasing 0 (S k) ltac:(lia) ltac:(lia)) as L0. rewrite lk_0 in L0.
    assert (L1 : lk (S k) <= 1). { destruct (Nat.eq_dec (S k) K) as [->|N]; [rewrite lk_K; lra|]. rewrite <- lk_K. left. apply lk_increasing; lia. }
    assert (L2 : 0 <= lk k). { destruct k as [|k']; [rewrite lk_0; lra|]. rewrite <- lk_0. left. apply lk_increasing; lia. }
    assert (Hx : b_left bx <= x <= b_right bx) by (unfold x; split; nra).
    assert (Exn : qxnorm x = xn) by (unfold qxnorm, x; field; lra).
    exists x. eexists. split; [exact E|]. split; [exact Hx|].
    destruct (q_forward_in_bin x Hx) as [k' [Hk' [Hge' [Hlt' [Hle' E']]]]]. rewrite Exn in *.
    (* the forward bin of the pre-image is k, unless the pre-image is a knot shared with the next bin, where both bins agree *)
    assert (Hval : rawk k' xn = yn /\ slopek k' xn = slopek k xn).
    { destruct (Nat.eq_dec k' k) as [->|N]; [split; [exact Er | reflexivity]|].
      (* different bins: xn must be the right end of bin k = left end of bin k' = S k *)
      assert (Hk'k : k' = S k /\ xn = lk (S k)).
      { destruct (lt_eq_lt_dec k' k) as [[L|Eq]|L]; [exfalso | congruence |].
        - destruct Hlt' as [Hlt'|Hlt']; [|lia].
          assert (lk (S k') <= lk k). { destruct (Nat.eq_dec (S k') k) as [->|N']; [lra|]. left. apply lk_increasing; lia. } lra.
        - assert (lk (S k) <= lk k'). { destruct (Nat.eq_dec (S k) k') as [->|N']; [lra|]. left. apply lk_increasing; lia. }
          assert (xn = lk (S k)) by lra. split; [|exact H0].
          destruct (Nat.eq_dec (S k) k') as [Eq|N']; [congruence|]. exfalso.
          assert (lk (S k) < lk k') by (apply lk_increasing; lia). lra. }
      destruct Hk'k as [-> Exk]. destruct (rawk_ends (S k) Hk') as [E1 _]. destruct (rawk_ends k Hk) as [_ E2].
      split.
      - rewrite Exk, E1. rewrite <- E2, <- Exk. exact Er.
      - unfold slopek, q_slope. rewrite Exk.
        replace ((lk (S k) - lk (S k)) / nth (S k) ws 0) with 0 by (field; apply Rgt_not_eq; apply ws_nth_pos; exact Hk').
        rewrite (lk_S k Hk). replace ((lk k + nth k ws 0 - lk k) / nth k ws 0) with 1 by (field; apply Rgt_not_eq; apply ws_nth_pos; exact Hk). ring. }
    destruct Hval as [Hv Hs]. unfold QF, QFlad. rewrite E'. rewrite Hv, Hs. split.
    - unfold yn, qynorm. field. lra.
    - ring.
  Qed.

  Theorem quadratic_inverse_of_forward x : b_left bx <= x <= b_right bx ->
    quadratic_spline Rops minw minh true bx uw uh (QF x) = Ok (x, - QFlad x).
  Proof.
    intros Hx. destruct quadratic_whole as [Hacc [_ Hinc]].
    destruct (Hacc x Hx) as [y [l [E [Hy _]]]]. assert (EF : QF x = y) by (unfold QF; rewrite E; reflexivity).
    rewrite EF. destruct (quadratic_forward_of_inverse y Hy) as [x' [l' [E' [Hx' [Hf Hl]]]]].
    assert (x' = x).
    { destruct (Rtotal_order x' x) as [L|[Eq|L]]; [exfalso | exact Eq | exfalso].
      - pose proof (Hinc x' x ltac:(lra) L ltac:(lra)). lra.
      - pose proof (Hinc x x' ltac:(lra) L ltac:(lra)). lra. }
    subst x'. rewrite E', Hl. reflexivity.
  Qed.

  (* ---- differentiability of the whole spline, knots included: the piecewise-linear density is continuous across knots (both
     neighbouring bins use the SAME node height there), so the spline is C1 and the returned log-abs-det is ln of its derivative ---- *)
  Definition gk (k : nat) (x : R) : R := rawk k (qxnorm x) * (b_top bx - b_bottom bx) + b_bottom bx.
  Definition dgk (k : nat) (x : R) : R := slopek k (qxnorm x) * (b_top bx - b_bottom bx) / (b_right bx - b_left bx).

  Lemma gk_derive k x : (k < K)%nat -> is_derive (gk k) x (dgk k x).
  Proof.
    intros Hk. pose proof (ws_nth_pos k Hk) as Pw.
    destruct (q_coefs (lk k) (nth k ws 0) (ck k) (nth k hs 0) (nth (S k) hs 0)) as [Ea [Eb Ec]].
    unfold gk, dgk, rawk, slopek, q_raw, q_slope, qxnorm. rewrite Ea, Eb, Ec.
    auto_derive; [repeat split; apply Rgt_not_eq; lra | field; split; apply Rgt_not_eq; lra].
  Qed.

  Lemma QF_on_bin j y : (j < K)%nat -> b_left bx <= y <= b_right bx -> lk j <= qxnorm y -> qxnorm y < lk (S j) ->
    QF y = gk j y /\ QFlad y = ln (slopek j (qxnorm y)) + ln (b_top bx - b_bottom bx) - ln (b_right bx - b_left bx).
  Proof.
    intros Hj Hb A B. destruct (q_forward_in_bin y Hb) as [k [Hk [Hge [Hlt [Hle E]]]]].
    assert (k = j) by (apply (q_bin_unique lk (qxnorm y)); try assumption; [apply lk_increasing | left; exact B]). subst k.
    unfold QF, QFlad, gk. rewrite E. split; reflexivity.
  Qed.

  Lemma qxnorm_inv v : qxnorm (v * (b_right bx - b_left bx) + b_left bx) = v.
  Proof. unfold qxnorm. field. lra. Qed.

  Definition Wd : R := b_right bx - b_left bx.
  Lemma Wd_pos : 0 < Wd. Proof. unfold Wd. lra. Qed.
  Lemma qxnorm_diff y x : qxnorm y - qxnorm x = (y - x) / Wd.
  Proof. unfold qxnorm, Wd. field. lra. Qed.
  Lemma qxnorm_ends : qxnorm (b_left bx) = 0 /\ qxnorm (b_right bx) = 1.
  Proof. unfold qxnorm. split; field; lra. Qed.
  Lemma qxnorm_lt a b : a < b -> qxnorm a < qxnorm b.
  Proof. intros H. pose proof (qxnorm_diff b a) as E. pose proof Wd_pos. assert (0 < (b - a) / Wd) by (apply Rdiv_lt_0_compat; lra). lra. Qed.
  Lemma qxnorm_back y : y = qxnorm y * Wd + b_left bx.
  Proof. unfold qxnorm, Wd. field. lra. Qed.

  Theorem quadratic_whole_derivative x : b_left bx < x < b_right bx ->
    is_derive QF x (exp (QFlad x)) /\ 0 < exp (QFlad x).
  Proof.
    intros [Hl Hr]. split; [|apply exp_pos].
    pose proof Wd_pos as HW. destruct qxnorm_ends as [En0 En1].
    destruct (q_forward_in_bin x ltac:(lra)) as [k [Hk [Hge [Hlt [Hle E]]]]].
    assert (Hn1 : qxnorm x < 1) by (rewrite <- En1; apply qxnorm_lt; exact Hr).
    assert (Hn0 : 0 < qxnorm x) by (rewrite <- En0; apply qxnorm_lt; exact Hl).
    assert (Hlt' : qxnorm x < lk (S k)).
    { destruct Hlt as [L|EK]; [exact L|]. rewrite EK, lk_K. exact Hn1. }
    pose proof (slopek_pos k (qxnorm x) Hk (conj Hge Hle)) as Ps.
    assert (EL : exp (QFlad x) = dgk k x).
    { unfold QFlad. rewrite E. unfold dgk. unfold Rminus. rewrite !exp_plus, exp_Ropp, !exp_ln by lra. field. lra. }
    rewrite EL.
    (* points near x whose normalised position lies within delta of qxnorm x *)
    assert (near : forall d y, 0 < d -> x - d * Wd < y < x + d * Wd -> qxnorm x - d < qxnorm y < qxnorm x + d).
    { intros d y Hd [Y1 Y2]. pose proof (qxnorm_diff y x) as Ed.
      assert (- d < (y - x) / Wd < d).
      { split.
        - apply (Rmult_lt_reg_r Wd); [exact HW|]. unfold Rdiv. rewrite Rmult_assoc, Rinv_l by lra. lra.
        - apply (Rmult_lt_reg_r Wd); [exact HW|]. unfold Rdiv. rewrite Rmult_assoc, Rinv_l by lra. lra. }
      lra. }
    assert (inbox : forall d y, 0 < d -> d <= qxnorm x -> d <= 1 - qxnorm x -> x - d * Wd < y < x + d * Wd -> b_left bx <= y <= b_right bx).
    { intros d y Hd D1 D2 Hy. destruct (near d y Hd Hy) as [N1 N2].
      rewrite (qxnorm_back y). unfold Wd in *. split; nra. }
    destruct (Rle_lt_or_eq_dec _ _ Hge) as [Hgt|Eq].
    - (* strictly inside bin k *)
      apply (derive_ext_near QF (gk k) x (dgk k x)); [apply gk_derive; exact Hk|].
      set (d := Rmin (Rmin (qxnorm x - lk k) (lk (S k) - qxnorm x)) (Rmin (qxnorm x) (1 - qxnorm x))).
      assert (Hd : 0 < d) by (unfold d; repeat apply Rmin_glb_lt; lra).
      exists (d * Wd). split; [apply Rmult_lt_0_compat; assumption|]. intros y Hy.
      destruct (near d y Hd Hy) as [N1 N2].
      assert (D1 : d <= qxnorm x - lk k) by (unfold d; eapply Rle_trans; [apply Rmin_l | apply Rmin_l]).
      assert (D2 : d <= lk (S k) - qxnorm x) by (unfold d; eapply Rle_trans; [apply Rmin_l | apply Rmin_r]).
      assert (D3 : d <= qxnorm x) by (unfold d; eapply Rle_trans; [apply Rmin_r | apply Rmin_l]).
      assert (D4 : d <= 1 - qxnorm x) by (unfold d; eapply Rle_trans; [apply Rmin_r | apply Rmin_r]).
      apply QF_on_bin; [exact Hk | apply (inbox d); assumption | lra | lra].
    - (* x sits on the knot l_k with k >= 1 *)
      assert (Hk1 : (0 < k)%nat).
      { destruct k as [|k']; [exfalso; rewrite lk_0 in Eq; lra | lia]. }
      destruct k as [|j]; [lia|]. assert (Hj : (j < K)%nat) by lia.
      destruct (rawk_ends j Hj) as [_ Ej2]. destruct (rawk_ends (S j) Hk) as [Ek1 _].
      apply (derive_glue QF (gk j) (gk (S j)) x (dgk (S j) x)).
      + replace (dgk (S j) x) with (dgk j x); [apply gk_derive; exact Hj|].
        unfold dgk, slopek, q_slope. rewrite <- Eq.
        replace ((lk (S j) - lk (S j)) / nth (S j) ws 0) with 0 by (field; apply Rgt_not_eq; apply ws_nth_pos; exact Hk).
        rewrite (lk_S j Hj). replace ((lk j + nth j ws 0 - lk j) / nth j ws 0) with 1 by (field; apply Rgt_not_eq; apply ws_nth_pos; exact Hj). field. lra.
      + apply gk_derive; exact Hk.
      + unfold QF. rewrite E. unfold gk. rewrite <- Eq, Ej2, Ek1. reflexivity.
      + unfold QF. rewrite E. reflexivity.
      + set (d := Rmin (nth j ws 0) (Rmin (qxnorm x) (1 - qxnorm x))).
        assert (Hd : 0 < d) by (unfold d; repeat apply Rmin_glb_lt; try lra; apply ws_nth_pos; exact Hj).
        exists (d * Wd). split; [apply Rmult_lt_0_compat; assumption|]. intros y [Y1 Y2].
        assert (Hy : x - d * Wd < y < x + d * Wd) by (assert (0 < d * Wd) by (apply Rmult_lt_0_compat; assumption); lra).
        destruct (near d y Hd Hy) as [N1 _].
        assert (N2 : qxnorm y < qxnorm x) by (apply qxnorm_lt; lra).
        assert (D1 : d <= nth j ws 0) by (unfold d; apply Rmin_l).
        assert (D3 : d <= qxnorm x) by (unfold d; eapply Rle_trans; [apply Rmin_r | apply Rmin_l]).
        assert (D4 : d <= 1 - qxnorm x) by (unfold d; eapply Rle_trans; [apply Rmin_r | apply Rmin_r]).
        apply QF_on_bin; [exact Hj | apply (inbox d); assumption | rewrite <- Eq in N1; rewrite (lk_S j Hj) in N1; lra | rewrite Eq; exact N2].
      + set (d := Rmin (nth (S j) ws 0) (Rmin (qxnorm x) (1 - qxnorm x))).
        assert (Hd : 0 < d) by (unfold d; repeat apply Rmin_glb_lt; try lra; apply ws_nth_pos; exact Hk).
        exists (d * Wd). split; [apply Rmult_lt_0_compat; assumption|]. intros y [Y1 Y2].
        assert (Hy : x - d * Wd < y < x + d * Wd) by (assert (0 < d * Wd) by (apply Rmult_lt_0_compat; assumption); lra).
        destruct (near d y Hd Hy) as [_ N1].
        assert (N2 : qxnorm x < qxnorm y) by (apply qxnorm_lt; lra).
        assert (D1 : d <= nth (S j) ws 0) by (unfold d; apply Rmin_l).
        assert (D3 : d <= qxnorm x) by (unfold d; eapply Rle_trans; [apply Rmin_r | apply Rmin_l]).
        assert (D4 : d <= 1 - qxnorm x) by (unfold d; eapply Rle_trans; [apply Rmin_r | apply Rmin_r]).
        apply QF_on_bin; [exact Hk | apply (inbox d); assumption | rewrite Eq; lra | rewrite <- Eq in N1; rewrite (lk_S (S j) Hk); lra].
  Qed.
End QWhole.
