From Coq Require Import List Arith Lia Reals Lra.
From Coquelicot Require Import Coquelicot.
From NF Require Import Base.Ops Base.Rops Gen.Dist Model.Utils Model.FlowSample Proofs.UtilsP.
Import ListNotations.

Section Pairing.
  Context {ZT CT XT : Type}.
  Variable tinv : ZT -> CT -> XT.

  Lemma zip_with_app {A B D} (f : A -> B -> D) a1 a2 b1 b2 :
    length a1 = length b1 -> zip_with f (a1 ++ a2) (b1 ++ b2) = zip_with f a1 b1 ++ zip_with f a2 b2.
  Proof.
    revert b1; induction a1 as [|x a1 IH]; intros [|y b1] H; cbn in *; try lia; [reflexivity|].
    f_equal. apply IH. lia.
  Qed.
  Lemma zip_with_repeat {A B D} (f : A -> B -> D) (row : list A) (c : B) :
    zip_with f row (repeat c (length row)) = map (fun z => f z c) row.
  Proof. induction row as [|x row IH]; cbn; [reflexivity | f_equal; exact IH]. Qed.

  (* the sample at [i][j] is the inverse of noise[i][j] under context row i -- never another row *)
  Theorem flow_sample_pairing (n : nat) (noise : list (list ZT)) (ctx : list CT) :
    length noise = length ctx -> List.Forall (fun row => length row = n) noise ->
    flow_sample tinv n noise ctx = zip_with (fun row c => map (fun z => tinv z c) row) noise ctx.
  Proof.
    unfold flow_sample. revert ctx; induction noise as [|row noise IH]; intros [|c ctx] Hl Hf; cbn in Hl; try lia; [reflexivity|].
    inversion Hf as [|? ? Hr Hf']; subst.
    cbn [concat flat_map length chunks zip_with].
    rewrite zip_with_app by (rewrite repeat_length; reflexivity).
    rewrite zip_with_repeat.
    rewrite firstn_app, map_length, Nat.sub_diag, firstn_O, app_nil_r, firstn_all2 by (rewrite map_length; lia).
    rewrite skipn_app, map_length, Nat.sub_diag, skipn_O, skipn_all2 by (rewrite map_length; lia). cbn [app].
    f_equal. apply IH; [lia | exact Hf'].
  Qed.
End Pairing.

(* tiling the context instead of repeating its rows would pair draws with the wrong rows: the statement discriminates *)
Example tile_would_mispair :
  flat_map (fun c : nat => repeat c 2) [10%nat; 20%nat] <> concat (repeat [10%nat; 20%nat] 2).
Proof. cbn. intros H. inversion H. Qed.

Open Scope R_scope.
(* sample_and_log_prob: the value returned with a sample is log_prob of that sample, given the transform's
   inverse contract (C02): forward(inverse z) = z with opposite log-dets *)
Theorem sample_and_log_prob_consistent (base_lp : R -> R) (z fwd_of_sample fwd_lad inv_lad : R) :
  fwd_of_sample = z -> fwd_lad = - inv_lad ->
  flow_sample_log_prob Rops (base_lp z) inv_lad = flow_log_prob Rops (base_lp fwd_of_sample) fwd_lad.
Proof. intros -> ->. unfold flow_sample_log_prob, flow_log_prob. cbn [Rops o_add o_sub]. ring. Qed.

(* samples obtained by inverting base noise follow exp(log_prob): one-dimensional push-forward *)
Theorem pushforward_cdf_1d (g ginv Phi phi : R -> R) (a dg : R) :
  (forall x y, x <= y -> g x <= g y) -> (forall x y, g x <= g y -> x <= y) -> (forall z, g (ginv z) = z) ->
  is_derive g a dg -> is_derive Phi (g a) (phi (g a)) ->
  (forall z, ginv z <= a <-> z <= g a) /\
  is_derive (fun t => Phi (g t)) a (dg * phi (g a)).
Proof.
  intros Hmono Hrefl Hinv Hg HPhi. split.
  - intros z. split; intros H.
    + rewrite <- (Hinv z). apply Hmono. exact H.
    + apply Hrefl. rewrite Hinv. exact H.
  - pose proof (is_derive_comp Phi g a (phi (g a)) dg HPhi Hg) as Hc. unfold scal in Hc; cbn in Hc. unfold mult in Hc; cbn in Hc. exact Hc.
Qed.

(* the density of the push-forward is exp(log_prob): exp(base_lp (g a) + ln g'(a)) = phi(g a) * g'(a) *)
Lemma density_is_exp_log_prob (phi_ga dg : R) : 0 < phi_ga -> 0 < dg ->
  exp (flow_log_prob Rops (ln phi_ga) (ln dg)) = dg * phi_ga.
Proof. intros H1 H2. unfold flow_log_prob. cbn [Rops o_add]. rewrite exp_plus, !exp_ln by assumption. ring. Qed.

(* one-dimensional change of variables on any interval: the flow's density transports exactly the base mass *)
Theorem change_of_variables_1d (g dg phi : R -> R) (a b : R) :
  a <= b ->
  (forall x, a <= x <= b -> is_derive g x (dg x)) -> (forall x, a <= x <= b -> continuous dg x) ->
  (forall x, a <= x <= b -> continuous phi (g x)) ->
  is_RInt (fun x => scal (dg x) (phi (g x))) a b (RInt phi (g a) (g b)).
Proof.
  intros Hab Hd Hc Hp.
  apply (is_RInt_comp phi g dg a b).
  - intros x Hx. rewrite Rmin_left, Rmax_right in Hx by exact Hab. apply Hp. exact Hx.
  - intros x Hx. rewrite Rmin_left, Rmax_right in Hx by exact Hab. split; [apply Hd | apply Hc]; exact Hx.
Qed.
