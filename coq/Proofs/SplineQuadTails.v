(* The unconstrained piecewise-quadratic spline (linear tails; K - 1 unnormalised heights, the boundary heights computed by the
   code so that the density is continuous with the tails): identity outside [-B, B], the whole-spline bijection of [-B, B]
   inside, hence a strictly increasing map of the real line that takes every value.  Needs at least two bins. *)
From Coq Require Import Reals ZArith List Bool Arith Lia Lra.
From Coquelicot Require Import Coquelicot.
From NF Require Import Base.Ops Base.Rops Base.Result Gen.Utils Gen.SplineQuadratic Model.Utils Model.Vec Model.SplineRQ Model.SplineQuadratic
  Proofs.SplineQuadWhole.
Import ListNotations.
Open Scope R_scope.

Section QuadTails.
  Variables (minw minh B : R) (uw uh : list R).
  Hypothesis (HB : 0 < B) (HK : uw <> []) (H2 : (2 <= length uw)%nat) (Hlh : length uh = (length uw - 1)%nat)
             (Hw0 : 0 <= minw) (HwK : minw * INR (length uw) <= 1) (Hh0 : 0 <= minh) (HhK : minh * INR (length uw) <= 1).
  Let bx : @box R := {| b_left := - B; b_right := B; b_bottom := - B; b_top := B |}.
  Let Hlr : b_left bx < b_right bx. Proof. cbn. lra. Qed.
  Let Hbt : b_bottom bx < b_top bx. Proof. cbn. lra. Qed.
  Let Hform : length uh = S (length uw) \/ (length uh = (length uw - 1)%nat /\ (2 <= length uw)%nat).
  Proof. right. split; assumption. Qed.

  Definition UQ (x : R) : R := match quadratic_unconstrained Rops minw minh false B uw uh x with Ok (y, _) => y | _ => 0 end.

  Lemma quad_inside_iff x : quad_inside_tails Rops x B = true <-> - B <= x <= B.
  Proof. unfold quad_inside_tails. cbn [Rops o_leb o_neg]. rewrite andb_true_iff, !Rleb_true. tauto. Qed.

  Lemma UQ_inside x : - B <= x <= B -> UQ x = QF minw minh bx uw uh x.
  Proof. intros Hx. unfold UQ, quadratic_unconstrained. apply quad_inside_iff in Hx. rewrite Hx. reflexivity. Qed.

  Lemma UQ_outside x : x < - B \/ B < x -> UQ x = x.
  Proof.
    intros Hx. unfold UQ, quadratic_unconstrained. destruct (quad_inside_tails Rops x B) eqn:E; [|reflexivity].
    apply quad_inside_iff in E. lra.
  Qed.

  Lemma quad_parts : QF minw minh bx uw uh (- B) = - B /\ QF minw minh bx uw uh B = B /\
    (forall a b, - B <= a -> a < b -> b <= B -> QF minw minh bx uw uh a < QF minw minh bx uw uh b) /\
    (forall y, - B <= y <= B -> exists x, - B <= x <= B /\ QF minw minh bx uw uh x = y).
  Proof.
    destruct (quadratic_whole minw minh bx uw uh HK Hform Hw0 HwK Hh0 HhK Hlr Hbt) as [_ [[E1 E2] Inc]].
    split; [exact E1|]. split; [exact E2|]. split; [exact Inc|].
    intros y Hy. destruct (quadratic_forward_of_inverse minw minh bx uw uh HK Hform Hw0 HwK Hh0 HhK Hlr Hbt y Hy) as [x [l [_ [Hx [E _]]]]].
    exists x. split; assumption.
  Qed.

  Theorem quad_tails_meet : UQ (- B) = - B /\ UQ B = B.
  Proof. destruct quad_parts as [E1 [E2 _]]. rewrite !UQ_inside by lra. split; assumption. Qed.

  Theorem quad_unconstrained_increasing a b : a < b -> UQ a < UQ b.
  Proof.
    intros Hab. destruct quad_parts as [E1 [E2 [Inc _]]].
    assert (Hle : forall x, - B <= x <= B -> - B <= QF minw minh bx uw uh x <= B).
    { intros x [X1 X2]. split.
      - destruct (Rle_lt_or_eq_dec _ _ X1) as [L|Eq]; [|rewrite <- Eq; lra].
        assert (QF minw minh bx uw uh (- B) < QF minw minh bx uw uh x) by (apply Inc; lra). lra.
      - destruct (Rle_lt_or_eq_dec _ _ X2) as [L|Eq]; [|rewrite Eq; lra].
        assert (QF minw minh bx uw uh x < QF minw minh bx uw uh B) by (apply Inc; lra). lra. }
    destruct (Rlt_le_dec a (- B)) as [A1|A1]; destruct (Rlt_le_dec B b) as [B1|B1].
    - rewrite !UQ_outside by lra. lra.
    - rewrite (UQ_outside a) by lra. destruct (Rlt_le_dec b (- B)) as [B2|B2].
      + rewrite (UQ_outside b) by lra. lra.
      + rewrite (UQ_inside b) by lra. pose proof (Hle b ltac:(lra)). lra.
    - rewrite (UQ_outside b) by lra. destruct (Rlt_le_dec B a) as [A2|A2].
      + rewrite (UQ_outside a) by lra. lra.
      + rewrite (UQ_inside a) by lra. pose proof (Hle a ltac:(lra)). lra.
    - destruct (Rlt_le_dec B a) as [A2|A2]; [lra|]. destruct (Rlt_le_dec b (- B)) as [B2|B2]; [lra|].
      rewrite !UQ_inside by lra. apply Inc; lra.
  Qed.

  Theorem quad_unconstrained_onto y : exists x, UQ x = y.
  Proof.
    destruct quad_parts as [_ [_ [_ Onto]]].
    destruct (Rlt_le_dec y (- B)) as [L|L]; [exists y; apply UQ_outside; lra|].
    destruct (Rlt_le_dec B y) as [G|G]; [exists y; apply UQ_outside; lra|].
    destruct (Onto y ltac:(lra)) as [x [Hx E]]. exists x. rewrite UQ_inside by exact Hx. exact E.
  Qed.
End QuadTails.
