(* Change of variables through the WHOLE piecewise-cubic spline, forward direction (Model/SplineCubic.v over the generated formulas):
   for every accepted configuration, ALL unnormalised widths, heights and boundary derivatives and every base density phi
   continuous on [bottom, top],   int_left^right phi(F x) exp(logabsdet x) dx = int_bottom^top phi.
   Bin by bin: on the open bin the translated cubic_spline is the bin's cubic with the quadratic derivative exp(logabsdet), which
   is positive on the closed bin (Bernstein form, SplineCubicP); the bins are chained with Chasles. *)
From Coq Require Import Reals ZArith List Bool Arith Lia Lra.
From Coquelicot Require Import Coquelicot.
From NF Require Import Base.Ops Base.Rops Base.Result Gen.Dist Gen.SplineCubic Model.SplineRQ Model.SplineCubic Proofs.VecR Proofs.FlowP
  Proofs.SplineCubicP Proofs.SplineCubicWhole Proofs.Glue.
Import ListNotations.
Open Scope R_scope.

Lemma bin_unique (K : nat) (g : nat -> R) (v : R) (i j : nat) :
  (forall a b, (a < b)%nat -> (b <= K)%nat -> g a < g b) -> (i < K)%nat -> (j < K)%nat ->
  g i <= v -> v < g (S i) -> g j <= v -> v < g (S j) -> i = j.
Proof.
  intros Hm Hi Hj A B C D.
  destruct (lt_eq_lt_dec i j) as [[L|E]|L]; [exfalso | exact E | exfalso].
  - assert (g (S i) <= g j) by (destruct (Nat.eq_dec (S i) j) as [->|N]; [lra | left; apply Hm; lia]). lra.
  - assert (g (S j) <= g i) by (destruct (Nat.eq_dec (S j) i) as [->|N]; [lra | left; apply Hm; lia]). lra.
Qed.

Section CIntegral.
  Variables (minw minh eps thr : R) (bx : @box R) (uw uh : list R) (ul ur : R).
  Let K := length uw.
  Hypothesis (HK : uw <> []) (Hlh : length uh = K)
             (Hw0 : 0 <= minw) (HwK : minw * INR K <= 1) (Hh0 : 0 <= minh) (HhK : minh * INR K <= 1)
             (Hlr : b_left bx < b_right bx) (Hbt : b_bottom bx < b_top bx).
  Variable phi : R -> R.
  Hypothesis Hphi : forall y, b_bottom bx <= y <= b_top bx -> continuous phi y.

  Let xkk := xk minw uw.
  Let ykk := yk minh uh.
  Let F := CF minw minh eps thr bx uw uh ul ur.
  Definition CFlad (x : R) : R := match cubic_spline Rops minw minh eps thr false bx uw uh ul ur x with Ok (_, l) => l | _ => 0 end.

  Definition gc (k : nat) (x : R) : R := cfk minw minh uw uh ul ur k (cxnorm bx x) * (b_top bx - b_bottom bx) + b_bottom bx.
  Definition dgc (k : nat) (x : R) : R := cdk minw minh uw uh ul ur k (cxnorm bx x) * (b_top bx - b_bottom bx) / (b_right bx - b_left bx).
  Definition xc (k : nat) : R := xk minw uw k * (b_right bx - b_left bx) + b_left bx.
  Definition yc (k : nat) : R := yk minh uh k * (b_top bx - b_bottom bx) + b_bottom bx.

  Lemma cn_xc k : cxnorm bx (xc k) = xkk k.
  Proof. unfold cxnorm, xc, xkk. field. lra. Qed.

  Lemma cn_lt a b : a < b -> cxnorm bx a < cxnorm bx b.
  Proof. intros L. unfold cxnorm. apply Rmult_lt_compat_r; [apply Rinv_0_lt_compat; lra | lra]. Qed.

  Lemma gc_left k : (k < K)%nat -> gc k (xc k) = yc k.
  Proof.
    intros Hk. unfold gc. rewrite cn_xc. destruct (cfk_ends minw minh uw uh ul ur HK Hlh Hw0 HwK Hh0 HhK k Hk) as [E _].
    unfold xkk. rewrite E. reflexivity.
  Qed.

  Lemma gc_right k : (k < K)%nat -> gc k (xc (S k)) = yc (S k).
  Proof.
    intros Hk. unfold gc. rewrite cn_xc. destruct (cfk_ends minw minh uw uh ul ur HK Hlh Hw0 HwK Hh0 HhK k Hk) as [_ E].
    unfold xkk. rewrite E. reflexivity.
  Qed.

  Lemma xc_lt k : (k < K)%nat -> xc k < xc (S k).
  Proof.
    intros Hk. pose proof (xk_increasing minw uw uh HK Hlh Hw0 HwK k (S k) ltac:(lia) ltac:(fold K; lia)) as L.
    unfold xc. assert (0 < b_right bx - b_left bx) by lra. nra.
  Qed.

  Lemma xkk_bounds k : (k <= K)%nat -> 0 <= xkk k <= 1.
  Proof.
    intros Hk. unfold xkk. split.
    - destruct k as [|k']; [rewrite xk_0; lra|]. rewrite <- (xk_0 minw uw). left. apply (xk_increasing minw uw uh HK Hlh Hw0 HwK); [lia | fold K; lia].
    - destruct (Nat.eq_dec k K) as [E|N]; [rewrite E; unfold K; rewrite xk_K by assumption; lra|].
      rewrite <- (xk_K minw uw HK Hw0 HwK). left. apply (xk_increasing minw uw uh HK Hlh Hw0 HwK); [fold K; lia | lia].
  Qed.

  Lemma xc_within k : (k <= K)%nat -> b_left bx <= xc k <= b_right bx.
  Proof. intros Hk. pose proof (xkk_bounds k Hk) as [A B]. unfold xkk in A, B. unfold xc. assert (0 < b_right bx - b_left bx) by lra. nra. Qed.

  Lemma yc_within k : (k <= K)%nat -> b_bottom bx <= yc k <= b_top bx.
  Proof.
    intros Hk. pose proof (yk_bounds minh uw uh HK Hlh Hh0 HhK k Hk) as [A B]. unfold yc. assert (0 < b_top bx - b_bottom bx) by lra. nra.
  Qed.

  Lemma yc_lt k : (k < K)%nat -> yc k < yc (S k).
  Proof.
    intros Hk. pose proof (yk_increasing minh uw uh HK Hlh Hh0 HhK k (S k) ltac:(lia) ltac:(fold K; lia)) as L.
    unfold yc. assert (0 < b_top bx - b_bottom bx) by lra. nra.
  Qed.

  Lemma cn_between k x : xc k <= x <= xc (S k) -> xkk k <= cxnorm bx x <= xkk (S k).
  Proof.
    intros [A B]. rewrite <- (cn_xc k), <- (cn_xc (S k)). split.
    - destruct A as [A|A]; [left; apply cn_lt; assumption | rewrite A; lra].
    - destruct B as [B|B]; [left; apply cn_lt; assumption | rewrite B; lra].
  Qed.

  Lemma CF_on_bin j x : (j < K)%nat -> b_left bx <= x <= b_right bx -> xkk j <= cxnorm bx x -> cxnorm bx x < xkk (S j) ->
    F x = gc j x /\ CFlad x = ln (cdk minw minh uw uh ul ur j (cxnorm bx x)) + ln (b_top bx - b_bottom bx) - ln (b_right bx - b_left bx).
  Proof.
    intros Hj Hb A B. destruct (c_forward_in_bin minw minh eps thr bx uw uh ul ur HK Hlh Hw0 HwK Hh0 HhK Hlr x Hb) as [k [Hk [Hge [Hlt [Hle E]]]]].
    assert (Hlt' : cxnorm bx x < xk minw uw (S k)).
    { destruct Hlt as [L|Ek]; [exact L|]. rewrite Ek. unfold K in *. rewrite xk_K by assumption.
      pose proof (xkk_bounds (S j) ltac:(fold K; lia)) as [_ U]. unfold xkk in *. lra. }
    assert (k = j).
    { apply (bin_unique K (xk minw uw) (cxnorm bx x)); try assumption.
      intros a b Hab HbK. apply (xk_increasing minw uw uh HK Hlh Hw0 HwK); assumption. }
    subst k. unfold F, CF, CFlad, gc. rewrite E. split; reflexivity.
  Qed.

  Lemma cdk_pos k x : (k < K)%nat -> xc k <= x <= xc (S k) -> 0 < cdk minw minh uw uh ul ur k (cxnorm bx x).
  Proof.
    intros Hk Hx. pose proof (cn_between k x Hx) as [A B]. unfold xkk in A, B.
    destruct (ds_adm minw minh uw uh ul ur HK Hlh Hw0 HwK Hh0 HhK k Hk) as [D0 D1].
    unfold cdk. apply cubic_derivative_positive; try assumption.
    - apply cws_nth_pos; assumption.
    - apply (chs_nth_pos minh uw uh); assumption.
    - rewrite (xk_S minw uw uh HK Hlh Hw0 HwK k Hk) in B. lra.
  Qed.

  Lemma gc_derive k x : is_derive (gc k) x (dgc k x).
  Proof.
    unfold gc, dgc, cfk, cdk, cder.
    apply (is_derive_ext (fun x0 => (cub_coef_a Rops (cub_slope Rops (nth k (c_heights Rops minh uh) 0) (nth k (c_widths Rops minw uw) 0)) (nth k (c_widths Rops minw uw) 0)
                                       (nth k (c_derivs Rops (Vec.map2 (cub_slope Rops) (c_heights Rops minh uh) (c_widths Rops minw uw)) (c_widths Rops minw uw) ul ur) 0)
                                       (nth (S k) (c_derivs Rops (Vec.map2 (cub_slope Rops) (c_heights Rops minh uh) (c_widths Rops minw uw)) (c_widths Rops minw uw) ul ur) 0)
                                     * ((cxnorm bx x0 - xk minw uw k) * (cxnorm bx x0 - xk minw uw k) * (cxnorm bx x0 - xk minw uw k))
                                     + cub_coef_b Rops (cub_slope Rops (nth k (c_heights Rops minh uh) 0) (nth k (c_widths Rops minw uw) 0)) (nth k (c_widths Rops minw uw) 0)
                                       (nth k (c_derivs Rops (Vec.map2 (cub_slope Rops) (c_heights Rops minh uh) (c_widths Rops minw uw)) (c_widths Rops minw uw) ul ur) 0)
                                       (nth (S k) (c_derivs Rops (Vec.map2 (cub_slope Rops) (c_heights Rops minh uh) (c_widths Rops minw uw)) (c_widths Rops minw uw) ul ur) 0)
                                     * ((cxnorm bx x0 - xk minw uw k) * (cxnorm bx x0 - xk minw uw k))
                                     + nth k (c_derivs Rops (Vec.map2 (cub_slope Rops) (c_heights Rops minh uh) (c_widths Rops minw uw)) (c_widths Rops minw uw) ul ur) 0
                                       * (cxnorm bx x0 - xk minw uw k) + yk minh uh k) * (b_top bx - b_bottom bx) + b_bottom bx)).
    - intros t. rewrite cfwd_eq. reflexivity.
    - generalize (cub_coef_a Rops (cub_slope Rops (nth k (c_heights Rops minh uh) 0) (nth k (c_widths Rops minw uw) 0)) (nth k (c_widths Rops minw uw) 0)
                                       (nth k (c_derivs Rops (Vec.map2 (cub_slope Rops) (c_heights Rops minh uh) (c_widths Rops minw uw)) (c_widths Rops minw uw) ul ur) 0)
                                       (nth (S k) (c_derivs Rops (Vec.map2 (cub_slope Rops) (c_heights Rops minh uh) (c_widths Rops minw uw)) (c_widths Rops minw uw) ul ur) 0)).
      generalize (cub_coef_b Rops (cub_slope Rops (nth k (c_heights Rops minh uh) 0) (nth k (c_widths Rops minw uw) 0)) (nth k (c_widths Rops minw uw) 0)
                                       (nth k (c_derivs Rops (Vec.map2 (cub_slope Rops) (c_heights Rops minh uh) (c_widths Rops minw uw)) (c_widths Rops minw uw) ul ur) 0)
                                       (nth (S k) (c_derivs Rops (Vec.map2 (cub_slope Rops) (c_heights Rops minh uh) (c_widths Rops minw uw)) (c_widths Rops minw uw) ul ur) 0)).
      generalize (nth k (c_derivs Rops (Vec.map2 (cub_slope Rops) (c_heights Rops minh uh) (c_widths Rops minw uw)) (c_widths Rops minw uw) ul ur) 0).
      intros d0 cb ca. unfold cxnorm. auto_derive; [exact I|]. field. lra.
  Qed.

  Lemma dgc_continuous k x : continuous (dgc k) x.
  Proof.
    apply (ex_derive_continuous (dgc k)). unfold dgc, cdk, cder, cxnorm.
    generalize (cub_coef_a Rops (cub_slope Rops (nth k (c_heights Rops minh uh) 0) (nth k (c_widths Rops minw uw) 0)) (nth k (c_widths Rops minw uw) 0)
                                       (nth k (c_derivs Rops (Vec.map2 (cub_slope Rops) (c_heights Rops minh uh) (c_widths Rops minw uw)) (c_widths Rops minw uw) ul ur) 0)
                                       (nth (S k) (c_derivs Rops (Vec.map2 (cub_slope Rops) (c_heights Rops minh uh) (c_widths Rops minw uw)) (c_widths Rops minw uw) ul ur) 0)).
    generalize (cub_coef_b Rops (cub_slope Rops (nth k (c_heights Rops minh uh) 0) (nth k (c_widths Rops minw uw) 0)) (nth k (c_widths Rops minw uw) 0)
                                       (nth k (c_derivs Rops (Vec.map2 (cub_slope Rops) (c_heights Rops minh uh) (c_widths Rops minw uw)) (c_widths Rops minw uw) ul ur) 0)
                                       (nth (S k) (c_derivs Rops (Vec.map2 (cub_slope Rops) (c_heights Rops minh uh) (c_widths Rops minw uw)) (c_widths Rops minw uw) ul ur) 0)).
    intros cb ca. auto_derive. exact I.
  Qed.

  Lemma piece_integral k : (k < K)%nat ->
    is_RInt (fun x => phi (F x) * exp (CFlad x)) (xc k) (xc (S k)) (RInt phi (yc k) (yc (S k))).
  Proof.
    intros Hk. pose proof (xc_lt k Hk) as Hstep.
    pose proof (xc_within k ltac:(lia)) as [L0 _]. pose proof (xc_within (S k) ltac:(lia)) as [_ R1].
    rewrite <- (gc_left k Hk), <- (gc_right k Hk).
    apply (is_RInt_ext (fun x => scal (dgc k x) (phi (gc k x)))).
    - intros x Hx. rewrite Rmin_left, Rmax_right in Hx by lra. destruct Hx as [A B].
      assert (Hin : b_left bx <= x <= b_right bx) by lra.
      assert (Q1 : xkk k <= cxnorm bx x) by (rewrite <- (cn_xc k); left; apply cn_lt; assumption).
      assert (Q2 : cxnorm bx x < xkk (S k)) by (rewrite <- (cn_xc (S k)); apply cn_lt; assumption).
      destruct (CF_on_bin k x Hk Hin Q1 Q2) as [EF EL]. rewrite EF, EL.
      pose proof (cdk_pos k x Hk ltac:(lra)) as SP.
      replace (exp (ln (cdk minw minh uw uh ul ur k (cxnorm bx x)) + ln (b_top bx - b_bottom bx) - ln (b_right bx - b_left bx))) with (dgc k x).
      + unfold scal; cbn. unfold mult; cbn. ring.
      + unfold Rminus at 1. rewrite exp_plus, exp_plus, exp_Ropp, !exp_ln by lra. unfold dgc. field. lra.
    - apply (change_of_variables_1d (gc k) (dgc k) phi (xc k) (xc (S k))); [lra | | |].
      + intros x _. apply gc_derive.
      + intros x _. apply dgc_continuous.
      + intros x Hx. apply Hphi. pose proof (cn_between k x Hx) as Q.
        pose proof (cfk_range minw minh uw uh ul ur HK Hlh Hw0 HwK Hh0 HhK k (cxnorm bx x) Hk ltac:(unfold xkk in Q; exact Q)) as [C D].
        pose proof (yk_bounds minh uw uh HK Hlh Hh0 HhK k ltac:(fold K; lia)) as [C0 _].
        pose proof (yk_bounds minh uw uh HK Hlh Hh0 HhK (S k) ltac:(fold K; lia)) as [_ D1].
        unfold gc. assert (0 < b_top bx - b_bottom bx) by lra. nra.
  Qed.

  (* ---- differentiable at EVERY interior point of the box, knots included, with derivative exp(log-abs-det): the node derivatives
     are shared by the two bins that meet at a knot ---- *)
  Let Wd := b_right bx - b_left bx.

  Lemma cn_diff y x : cxnorm bx y - cxnorm bx x = (y - x) / Wd.
  Proof. unfold cxnorm, Wd. field. lra. Qed.
  Lemma cn_back y : y = cxnorm bx y * Wd + b_left bx.
  Proof. unfold cxnorm, Wd. field. lra. Qed.
  Lemma cn_ends : cxnorm bx (b_left bx) = 0 /\ cxnorm bx (b_right bx) = 1.
  Proof. unfold cxnorm. split; field; lra. Qed.

  Theorem cubic_whole_derivative x : b_left bx < x < b_right bx ->
    is_derive F x (exp (CFlad x)) /\ 0 < exp (CFlad x).
  Proof.
    intros [Hl Hr]. split; [|apply exp_pos].
    assert (HW : 0 < Wd) by (unfold Wd; lra). destruct cn_ends as [En0 En1].
    destruct (c_forward_in_bin minw minh eps thr bx uw uh ul ur HK Hlh Hw0 HwK Hh0 HhK Hlr x ltac:(lra)) as [k [Hk [Hge [Hlt [Hle E]]]]].
    fold K in Hk. fold xkk in Hge, Hlt, Hle.
    assert (Hn1 : cxnorm bx x < 1) by (rewrite <- En1; apply cn_lt; exact Hr).
    assert (Hn0 : 0 < cxnorm bx x) by (rewrite <- En0; apply cn_lt; exact Hl).
    assert (Hlt' : cxnorm bx x < xkk (S k)).
    { destruct Hlt as [L|EK]; [exact L|]. rewrite EK. unfold xkk, K. rewrite xk_K by assumption. exact Hn1. }
    assert (Hxin : xc k <= x <= xc (S k)).
    { rewrite (cn_back x). unfold xc. fold xkk. fold Wd. split; nra. }
    pose proof (cdk_pos k x Hk Hxin) as Ps.
    assert (EL : exp (CFlad x) = dgc k x).
    { unfold CFlad. rewrite E. unfold dgc. unfold Rminus. rewrite !exp_plus, exp_Ropp, !exp_ln by lra. field. lra. }
    rewrite EL.
    assert (near : forall d y, 0 < d -> x - d * Wd < y < x + d * Wd -> cxnorm bx x - d < cxnorm bx y < cxnorm bx x + d).
    { intros d y Hd [Y1 Y2]. pose proof (cn_diff y x) as Ed.
      assert (- d < (y - x) / Wd < d).
      { split.
        - apply (Rmult_lt_reg_r Wd); [exact HW|]. unfold Rdiv. rewrite Rmult_assoc, Rinv_l by lra. lra.
        - apply (Rmult_lt_reg_r Wd); [exact HW|]. unfold Rdiv. rewrite Rmult_assoc, Rinv_l by lra. lra. }
      lra. }
    assert (inbox : forall d y, 0 < d -> d <= cxnorm bx x -> d <= 1 - cxnorm bx x -> x - d * Wd < y < x + d * Wd -> b_left bx <= y <= b_right bx).
    { intros d y Hd D1 D2 Hy. destruct (near d y Hd Hy) as [N1 N2].
      rewrite (cn_back y). unfold Wd in *. split; nra. }
    destruct (Rle_lt_or_eq_dec _ _ Hge) as [Hgt|Eq].
    - apply (derive_ext_near F (gc k) x (dgc k x)); [apply gc_derive|].
      set (d := Rmin (Rmin (cxnorm bx x - xkk k) (xkk (S k) - cxnorm bx x)) (Rmin (cxnorm bx x) (1 - cxnorm bx x))).
      assert (Hd : 0 < d) by (unfold d; repeat apply Rmin_glb_lt; lra).
      exists (d * Wd). split; [apply Rmult_lt_0_compat; assumption|]. intros y Hy.
      destruct (near d y Hd Hy) as [N1 N2].
      assert (D1 : d <= cxnorm bx x - xkk k) by (unfold d; eapply Rle_trans; [apply Rmin_l | apply Rmin_l]).
      assert (D2 : d <= xkk (S k) - cxnorm bx x) by (unfold d; eapply Rle_trans; [apply Rmin_l | apply Rmin_r]).
      assert (D3 : d <= cxnorm bx x) by (unfold d; eapply Rle_trans; [apply Rmin_r | apply Rmin_l]).
      assert (D4 : d <= 1 - cxnorm bx x) by (unfold d; eapply Rle_trans; [apply Rmin_r | apply Rmin_r]).
      apply CF_on_bin; [exact Hk | apply (inbox d); assumption | lra | lra].
    - assert (Hk1 : (0 < k)%nat).
      { destruct k as [|k']; [exfalso; unfold xkk in Eq; rewrite xk_0 in Eq; lra | lia]. }
      destruct k as [|j]; [lia|]. assert (Hj : (j < K)%nat) by lia.
      destruct (cfk_ends minw minh uw uh ul ur HK Hlh Hw0 HwK Hh0 HhK j Hj) as [_ Ej2].
      destruct (cfk_ends minw minh uw uh ul ur HK Hlh Hw0 HwK Hh0 HhK (S j) Hk) as [Ek1 _].
      pose proof (cws_nth_pos minw uw HK Hw0 HwK j Hj) as Pwj. pose proof (cws_nth_pos minw uw HK Hw0 HwK (S j) Hk) as Pwk.
      pose proof (xk_S minw uw uh HK Hlh Hw0 HwK j Hj) as Sj. pose proof (xk_S minw uw uh HK Hlh Hw0 HwK (S j) Hk) as Sk.
      apply (derive_glue F (gc j) (gc (S j)) x (dgc (S j) x)).
      + replace (dgc (S j) x) with (dgc j x); [apply gc_derive|].
        unfold dgc, cdk. rewrite <- Eq. unfold xkk.
        destruct (cubic_end_derivatives (xk minw uw (S j)) (nth (S j) (c_widths Rops minw uw) 0) (nth (S j) (c_heights Rops minh uh) 0)
                    (nth (S j) (c_derivs Rops (Vec.map2 (cub_slope Rops) (c_heights Rops minh uh) (c_widths Rops minw uw)) (c_widths Rops minw uw) ul ur) 0)
                    (nth (S (S j)) (c_derivs Rops (Vec.map2 (cub_slope Rops) (c_heights Rops minh uh) (c_widths Rops minw uw)) (c_widths Rops minw uw) ul ur) 0) Pwk) as [Ea _].
        destruct (cubic_end_derivatives (xk minw uw j) (nth j (c_widths Rops minw uw) 0) (nth j (c_heights Rops minh uh) 0)
                    (nth j (c_derivs Rops (Vec.map2 (cub_slope Rops) (c_heights Rops minh uh) (c_widths Rops minw uw)) (c_widths Rops minw uw) ul ur) 0)
                    (nth (S j) (c_derivs Rops (Vec.map2 (cub_slope Rops) (c_heights Rops minh uh) (c_widths Rops minw uw)) (c_widths Rops minw uw) ul ur) 0) Pwj) as [_ Eb].
        rewrite Ea. rewrite Sj. rewrite Eb. reflexivity.
      + apply gc_derive.
      + unfold F, CF. rewrite E. unfold gc. rewrite <- Eq. unfold xkk. rewrite Ej2, Ek1. reflexivity.
      + unfold F, CF. rewrite E. reflexivity.
      + set (d := Rmin (nth j (c_widths Rops minw uw) 0) (Rmin (cxnorm bx x) (1 - cxnorm bx x))).
        assert (Hd : 0 < d) by (unfold d; repeat apply Rmin_glb_lt; lra).
        exists (d * Wd). split; [apply Rmult_lt_0_compat; assumption|]. intros y [Y1 Y2].
        assert (Hy : x - d * Wd < y < x + d * Wd) by (assert (0 < d * Wd) by (apply Rmult_lt_0_compat; assumption); lra).
        destruct (near d y Hd Hy) as [N1 _].
        assert (N2 : cxnorm bx y < cxnorm bx x) by (apply cn_lt; lra).
        assert (D1 : d <= nth j (c_widths Rops minw uw) 0) by (unfold d; apply Rmin_l).
        assert (D3 : d <= cxnorm bx x) by (unfold d; eapply Rle_trans; [apply Rmin_r | apply Rmin_l]).
        assert (D4 : d <= 1 - cxnorm bx x) by (unfold d; eapply Rle_trans; [apply Rmin_r | apply Rmin_r]).
        apply CF_on_bin; [exact Hj | apply (inbox d); assumption | rewrite <- Eq in N1; unfold xkk in *; rewrite Sj in N1; lra | rewrite Eq; exact N2].
      + set (d := Rmin (nth (S j) (c_widths Rops minw uw) 0) (Rmin (cxnorm bx x) (1 - cxnorm bx x))).
        assert (Hd : 0 < d) by (unfold d; repeat apply Rmin_glb_lt; lra).
        exists (d * Wd). split; [apply Rmult_lt_0_compat; assumption|]. intros y [Y1 Y2].
        assert (Hy : x - d * Wd < y < x + d * Wd) by (assert (0 < d * Wd) by (apply Rmult_lt_0_compat; assumption); lra).
        destruct (near d y Hd Hy) as [_ N1].
        assert (N2 : cxnorm bx x < cxnorm bx y) by (apply cn_lt; lra).
        assert (D1 : d <= nth (S j) (c_widths Rops minw uw) 0) by (unfold d; apply Rmin_l).
        assert (D3 : d <= cxnorm bx x) by (unfold d; eapply Rle_trans; [apply Rmin_r | apply Rmin_l]).
        assert (D4 : d <= 1 - cxnorm bx x) by (unfold d; eapply Rle_trans; [apply Rmin_r | apply Rmin_r]).
        apply CF_on_bin; [exact Hk | apply (inbox d); assumption | rewrite Eq; lra | rewrite <- Eq in N1; unfold xkk in *; rewrite Sk; lra].
  Qed.

  Lemma phi_integrable a b : b_bottom bx <= a -> a <= b -> b <= b_top bx -> ex_RInt phi a b.
  Proof.
    intros A B C. apply (ex_RInt_continuous (V := R_CompleteNormedModule)). intros z Hz.
    rewrite Rmin_left, Rmax_right in Hz by exact B. apply Hphi. lra.
  Qed.

  Lemma upto_integral k : (k <= K)%nat ->
    is_RInt (fun x => phi (F x) * exp (CFlad x)) (xc 0) (xc k) (RInt phi (yc 0) (yc k)).
  Proof.
    induction k as [|k IH]; intros Hk.
    - rewrite RInt_point. apply (is_RInt_point (V := R_NormedModule)).
    - pose proof (yc_within 0 ltac:(lia)) as Y0. pose proof (yc_within k ltac:(lia)) as Yk. pose proof (yc_within (S k) ltac:(lia)) as Ys.
      assert (Y0k : yc 0 <= yc k).
      { clear IH Yk Ys Y0. induction k as [|j IHj]; [lra|]. pose proof (yc_lt j ltac:(lia)). specialize (IHj ltac:(lia)). lra. }
      assert (Yks : yc k <= yc (S k)) by (left; apply yc_lt; lia).
      rewrite <- (RInt_Chasles phi (yc 0) (yc k) (yc (S k))).
      + apply (is_RInt_Chasles (V := R_NormedModule) _ (xc 0) (xc k) (xc (S k))); [apply IH; lia | apply piece_integral; lia].
      + apply phi_integrable; lra.
      + apply phi_integrable; lra.
  Qed.

  Theorem cubic_whole_change_of_variables :
    is_RInt (fun x => phi (CF minw minh eps thr bx uw uh ul ur x) * exp (CFlad x)) (b_left bx) (b_right bx) (RInt phi (b_bottom bx) (b_top bx)).
  Proof.
    pose proof (upto_integral K (le_n K)) as HI.
    assert (E0 : xc 0 = b_left bx) by (unfold xc; rewrite xk_0; lra).
    assert (EK : xc K = b_right bx) by (unfold xc, K; rewrite xk_K by assumption; lra).
    assert (F0 : yc 0 = b_bottom bx) by (unfold yc; rewrite yk_0; lra).
    assert (FK : yc K = b_top bx) by (unfold yc, K; rewrite (yk_K minh uw uh HK Hlh Hh0 HhK); lra).
    rewrite E0, EK, F0, FK in HI. exact HI.
  Qed.
End CIntegral.
