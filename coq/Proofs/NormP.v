From Coq Require Import Reals ZArith List Bool Lra Lia.
From NF Require Import Base.Ops Base.Rops Base.Result Gen.Norm Model.Norm.
Import ListNotations.
Open Scope R_scope.

(* ================= ActNorm life-cycle (any carrier) ================= *)
Section Life.
  Context {T : Type} (O : ops T).
  Notation an_step := (an_step O).

  Definition an_params (s : an_state) : bool * T * T := (an_init s, an_log_scale s, an_shift s).

  (* once initialised: nothing ever changes the parameters or the flag again *)
  Lemma an_frozen_after_init s o :
    an_init s = true -> an_params (fst (an_step s o)) = an_params s.
  Proof.
    intros H. destruct o; cbn; try reflexivity.
    unfold an_initialises. rewrite H. rewrite andb_false_r. reflexivity.
  Qed.

  (* not initialised: the flag is set by a training-mode forward pass and by nothing else *)
  Lemma an_init_iff s o :
    an_init s = false ->
    (an_init (fst (an_step s o)) = true <-> (exists b, o = NForward b) /\ an_training s = true).
  Proof.
    intros H. destruct o; cbn [an_step fst].
    1,2,5: (cbn; split; [intros HH; rewrite H in HH; discriminate | intros [[b Hb] _]; discriminate]).
    - unfold an_initialises. rewrite H. destruct (an_training s) eqn:E; cbn.
      + split; [intros _; split; [eexists; reflexivity | reflexivity] | reflexivity].
      + split; [intros HH; rewrite H in HH; discriminate | intros [_ HH]; discriminate].
    - cbn. split; [intros HH; rewrite H in HH; discriminate | intros [[b' Hb] _]; discriminate].
  Qed.

  (* a step that does not initialise leaves the parameters alone *)
  Lemma an_params_change_only_at_init s o :
    an_params (fst (an_step s o)) <> an_params s ->
    an_init s = false /\ an_training s = true /\ exists b, o = NForward b.
  Proof.
    intros H. destruct (an_init s) eqn:E.
    - exfalso. apply H. apply an_frozen_after_init; exact E.
    - destruct o; cbn in H; try (exfalso; apply H; unfold an_params; cbn; rewrite E; reflexivity).
      unfold an_initialises in H. rewrite E in H. destruct (an_training s) eqn:Et; cbn in H.
      + repeat split. eexists; reflexivity.
      + exfalso. apply H. unfold an_params. rewrite E. reflexivity.
  Qed.

  Lemma an_run_frozen ops : forall s, an_init s = true -> an_params (an_run O s ops) = an_params s.
  Proof.
    induction ops as [|o r IH]; intros s H; [reflexivity|]. unfold an_run in *. cbn [fold_left].
    pose proof (an_frozen_after_init s o H) as E. rewrite IH.
    - exact E.
    - unfold an_params in E. inversion E as [[E1 E2 E3]]. rewrite E1. exact H.
  Qed.

  (* over every history from a fresh layer: either no training-mode forward has happened
     and the layer is exactly as constructed, or the parameters are those computed by the
     FIRST training-mode forward and never changed afterwards *)
  Theorem an_initialises_exactly_once ops1 b ops2 :
    an_init (an_run O (an_fresh O) ops1) = false ->
    an_training (an_run O (an_fresh O) ops1) = true ->
    let s1 := fst (an_step (an_run O (an_fresh O) ops1) (NForward b)) in
    an_init s1 = true /\
    an_params (an_run O (an_fresh O) (ops1 ++ NForward b :: ops2)) = an_params s1.
  Proof.
    intros H1 H2 s1.
    assert (Hi : an_init s1 = true).
    { unfold s1. apply (an_init_iff _ (NForward b) H1). split; [eexists; reflexivity | exact H2]. }
    split; [exact Hi|].
    unfold an_run. rewrite fold_left_app. cbn [fold_left]. apply an_run_frozen. exact Hi.
  Qed.

  (* while not initialised the parameters are the constructor's zeros *)
  Lemma an_uninitialised_is_fresh ops :
    an_init (an_run O (an_fresh O) ops) = false ->
    an_log_scale (an_run O (an_fresh O) ops) = o_zero O /\ an_shift (an_run O (an_fresh O) ops) = o_zero O.
  Proof.
    unfold an_run. induction ops as [|o r IH] using rev_ind; [intros; split; reflexivity|].
    rewrite fold_left_app. cbn [fold_left]. set (s := fold_left _ r _) in *.
    intros H. destruct (an_init s) eqn:E.
    - pose proof (an_frozen_after_init s o E) as F. unfold an_params in F. inversion F as [[F1 F2 F3]].
      congruence.
    - specialize (IH eq_refl). destruct o; cbn [an_step fst] in *; try exact IH.
      unfold an_initialises in *. rewrite E in *. destruct (an_training s); cbn in *; [discriminate | exact IH].
  Qed.
End Life.

(* ================= real-number algebra ================= *)
Notation rsumR := (rsum Rops).

Lemma rsum_cons x l : rsumR (x :: l) = x + rsumR l.
Proof. reflexivity. Qed.
Lemma rsum_nil : rsumR [] = 0.
Proof. reflexivity. Qed.

Lemma rsum_affine (a c : R) (l : list R) :
  rsumR (map (fun x => a * x + c) l) = a * rsumR l + c * INR (length l).
Proof.
  induction l as [|x l IH]; [cbn [map length]; rewrite rsum_nil; cbn; lra|].
  cbn [map length]. rewrite S_INR, !rsum_cons, IH. lra.
Qed.

Lemma rsum_scale (a : R) (l : list R) : rsumR (map (fun x => a * x) l) = a * rsumR l.
Proof. induction l as [|x l IH]; [cbn [map]; rewrite rsum_nil; lra|]. cbn [map]. rewrite !rsum_cons, IH. lra. Qed.

Lemma rsum_ext (f g : R -> R) l : (forall x, f x = g x) -> rsumR (map f l) = rsumR (map g l).
Proof. intros H. f_equal. apply map_ext. exact H. Qed.

Lemma ofnat_INR n : ofnat Rops n = INR n.
Proof. unfold ofnat. cbn. symmetry. apply INR_IZR_INZ. Qed.

(* The batch that initialises ActNorm comes out with zero mean and unit (unbiased) variance *)
Theorem an_init_normalises (b : list R) :
  (2 <= length b)%nat -> 0 < vvar Rops b ->
  let s1 := fst (an_step Rops (an_fresh Rops) (NForward b)) in
  let y := match snd (an_step Rops (an_fresh Rops) (NForward b)) with Ok (y, _) => y | _ => [] end in
  an_init s1 = true /\ vmean Rops y = 0 /\ vvar Rops y = 1.
Proof.
  intros Hn Hv s1 y. split; [reflexivity|].
  set (n := INR (length b)). assert (Hn2 : 2 <= n) by (unfold n; apply (le_INR 2); exact Hn).
  set (m := vmean Rops b). set (v := vvar Rops b) in *. set (s := sqrt v).
  assert (Hs : 0 < s) by (apply sqrt_lt_R0; exact Hv).
  assert (Hss : s * s = v) by (apply sqrt_sqrt; lra).
  assert (Hm : rsumR b = m * n).
  { unfold m, vmean. cbn [Rops o_div]. rewrite ofnat_INR. fold n. field. lra. }
  (* the outputs are (x - m) / s *)
  assert (Ey : y = map (fun x => / s * x + - (m / s)) b).
  { unfold y. cbn [an_step an_fresh snd an_initialises an_training an_init andb negb].
    apply map_ext. intros x. unfold an_forward_out, an_scale, an_init_log_scale, an_init_shift.
    cbn [Rops o_add o_mul o_exp o_neg o_ln an_log_scale an_shift]. change (vstd Rops b) with s.
    rewrite exp_Ropp, exp_ln by exact Hs. f_equal. f_equal.
    unfold vmean. cbn [Rops o_div]. rewrite map_length, ofnat_INR. fold n. change (vstd Rops b) with s.
    rewrite (rsum_ext _ (fun x0 => / s * x0)) by (intros; unfold Rdiv; ring). rewrite rsum_scale, Hm. field. lra. }
  assert (Ly : length y = length b) by (rewrite Ey; apply map_length).
  assert (My : vmean Rops y = 0).
  { unfold vmean. cbn [Rops o_div]. rewrite Ly, ofnat_INR. fold n. rewrite Ey, rsum_affine, Hm. fold n. field. lra. }
  split; [exact My|].
  unfold vvar. cbn [Rops o_div o_sq o_sub o_mul]. unfold o_sq. cbn [Rops o_mul]. rewrite My, Ly, ofnat_INR.
  assert (Hn1 : INR (length b - 1) = n - 1).
  { rewrite minus_INR by lia. reflexivity. }
  rewrite Hn1. rewrite Ey, map_map.
  rewrite (rsum_ext _ (fun x => / v * ((x - m) * (x - m)))).
  - rewrite <- (map_map (fun x => (x - m) * (x - m)) (fun z => / v * z)), rsum_scale.
    assert (Hv' : v = rsumR (map (fun x => (x - m) * (x - m)) b) / (n - 1)).
    { unfold v at 1, vvar. cbn [Rops o_div o_sq o_sub]. unfold o_sq. cbn [Rops o_mul]. fold m. rewrite ofnat_INR, Hn1. reflexivity. }
    assert (Hr : rsumR (map (fun x => (x - m) * (x - m)) b) = v * (n - 1)) by (rewrite Hv'; field; lra).
    rewrite Hr. field. lra.
  - intros x. rewrite <- Hss. field. lra.
Qed.

(* ================= BatchNorm ================= *)
Section BN.
  Variables (eps momentum : R).
  Notation bn_step := (bn_step Rops eps momentum).

  Definition bn_stats (s : bn_state) : R * R := (bn_rm s, bn_rv s).

  (* running statistics are written by training-mode forward passes only, by the momentum rule *)
  Theorem bn_running_stats s o :
    (forall b, o = NForward b -> bn_training s = true ->
       bn_stats (fst (bn_step s o))
       = ((1 - momentum) * bn_rm s + momentum * vmean Rops b, (1 - momentum) * bn_rv s + momentum * vvar Rops b)) /\
    ((forall b, o <> NForward b) \/ bn_training s = false -> bn_stats (fst (bn_step s o)) = bn_stats s).
  Proof.
    split.
    - intros b -> Ht. cbn [bn_step]. rewrite Ht. unfold bn_stats, bn_update_mean, bn_update_var. cbn. f_equal; ring.
    - intros H. destruct o; cbn [bn_step]; try reflexivity.
      + destruct H as [H|H]; [exfalso; apply (H b); reflexivity | rewrite H; reflexivity].
      + destruct (bn_training s && bn_inverse_unavailable_in_training); reflexivity.
  Qed.

  (* training mode normalises with the batch statistics, evaluation mode with the running ones *)
  Theorem bn_forward_statistics s b :
    snd (bn_step s (NForward b)) =
    let w := bn_weight Rops (bn_uw s) eps in
    let '(mean, var) := if bn_training s then (vmean Rops b, vvar Rops b) else (bn_rm s, bn_rv s) in
    Ok (map (fun x => w * ((x - mean) / sqrt (var + eps)) + bn_bias s) b, ln w - (1 / 2) * ln (var + eps)).
  Proof.
    cbn [bn_step]. destruct (bn_training s); cbn [snd];
      unfold bn_forward_out, bn_forward_lad, o_lit; cbn [Rops o_add o_sub o_mul o_div o_sqrt o_ln o_ofZ]; reflexivity.
  Qed.

  (* the inverse is offered in evaluation mode only, where it undoes the forward pass *)
  Theorem bn_inverse_contract s b :
    (bn_training s = true -> snd (bn_step s (NInverse b)) = InverseNotAvail) /\
    (bn_training s = false -> 0 < bn_weight Rops (bn_uw s) eps -> 0 < bn_rv s + eps ->
     match snd (bn_step s (NForward b)) with
     | Ok (y, ld) => match snd (bn_step s (NInverse y)) with
                     | Ok (x, ld') => x = b /\ ld + ld' = 0
                     | _ => False
                     end
     | _ => False
     end).
  Proof.
    split.
    - intros Ht. cbn [bn_step]. rewrite Ht. reflexivity.
    - intros Ht Hw Hv. cbn [bn_step]. rewrite Ht. cbn [andb snd]. split.
      + rewrite map_map. rewrite <- (map_id b) at 2. apply map_ext. intros x.
        unfold bn_inverse_out, bn_forward_out. cbn [Rops o_add o_sub o_mul o_div o_sqrt].
        set (w := bn_weight Rops (bn_uw s) eps) in *. set (q := sqrt (bn_rv s + eps)).
        assert (Hq : 0 < q) by (apply sqrt_lt_R0; exact Hv). field. lra.
      + unfold bn_forward_lad, bn_inverse_lad. cbn [Rops o_add o_sub o_mul o_neg o_ln]. ring.
  Qed.
End BN.
