(* The unconstrained cubic spline (linear tails), forward direction: identity outside [-B, B], the whole-spline map inside,
   meeting at +-B: a strictly increasing map of the real line. *)
From Coq Require Import Reals ZArith List Bool Arith Lia Lra.
From Coquelicot Require Import Coquelicot.
From NF Require Import Base.Ops Base.Rops Base.Result Gen.Utils Gen.SplineCubic Model.Utils Model.Vec Model.SplineRQ Model.SplineCubic
  Proofs.SplineCubicWhole.
Import ListNotations.
Open Scope R_scope.

Section CubTails.
  Variables (minw minh eps thr B : R) (uw uh : list R) (ul ur : R).
  Hypothesis (HB : 0 < B) (HK : uw <> []) (Hlh : length uh = length uw)
             (Hw0 : 0 <= minw) (HwK : minw * INR (length uw) <= 1) (Hh0 : 0 <= minh) (HhK : minh * INR (length uw) <= 1).
  Let bx : @box R := {| b_left := - B; b_right := B; b_bottom := - B; b_top := B |}.
  Let Hlr : b_left bx < b_right bx. Proof. cbn. lra. Qed.
  Let Hbt : b_bottom bx < b_top bx. Proof. cbn. lra. Qed.

  Definition UC (x : R) : R := match cubic_unconstrained Rops minw minh eps thr false B uw uh ul ur x with Ok (y, _) => y | _ => 0 end.

  Lemma cub_inside_iff x : cub_inside_tails Rops x B = true <-> - B <= x <= B.
  Proof. unfold cub_inside_tails. cbn [Rops o_leb o_neg]. rewrite andb_true_iff, !Rleb_true. tauto. Qed.

  Lemma UC_inside x : - B <= x <= B -> UC x = CF minw minh eps thr bx uw uh ul ur x.
  Proof. intros Hx. unfold UC, cubic_unconstrained. apply cub_inside_iff in Hx. rewrite Hx. reflexivity. Qed.

  Lemma UC_outside x : x < - B \/ B < x -> UC x = x.
  Proof.
    intros Hx. unfold UC, cubic_unconstrained. destruct (cub_inside_tails Rops x B) eqn:E; [|reflexivity].
    apply cub_inside_iff in E. lra.
  Qed.

  Theorem cub_tails_meet_and_increase :
    (UC (- B) = - B /\ UC B = B) /\ (forall a b, a < b -> UC a < UC b).
  Proof.
    destruct (cubic_whole minw minh eps thr bx uw uh ul ur HK Hlh Hw0 HwK Hh0 HhK Hlr Hbt) as [_ [[E1 E2] Inc]].
    set (G := CF minw minh eps thr bx uw uh ul ur) in *.
    split; [rewrite !UC_inside by lra; split; assumption|].
    assert (Hle : forall x, - B <= x <= B -> - B <= G x <= B).
    { intros x [X1 X2]. split.
      - destruct (Rle_lt_or_eq_dec _ _ X1) as [L|Eq]; [|rewrite <- Eq; cbn in E1; lra].
        assert (G (- B) < G x) by (apply Inc; cbn; lra). cbn in E1. lra.
      - destruct (Rle_lt_or_eq_dec _ _ X2) as [L|Eq]; [|rewrite Eq; cbn in E2; lra].
        assert (G x < G B) by (apply Inc; cbn; lra). cbn in E2. lra. }
    intros a b Hab.
    destruct (Rlt_le_dec a (- B)) as [A1|A1]; destruct (Rlt_le_dec B b) as [B1|B1].
    - rewrite !UC_outside by lra. lra.
    - rewrite (UC_outside a) by lra. destruct (Rlt_le_dec b (- B)) as [B2|B2].
      + rewrite (UC_outside b) by lra. lra.
      + rewrite (UC_inside b) by lra. pose proof (Hle b ltac:(lra)). fold G. lra.
    - rewrite (UC_outside b) by lra. destruct (Rlt_le_dec B a) as [A2|A2].
      + rewrite (UC_outside a) by lra. lra.
      + rewrite (UC_inside a) by lra. pose proof (Hle a ltac:(lra)). fold G. lra.
    - destruct (Rlt_le_dec B a) as [A2|A2]; [lra|]. destruct (Rlt_le_dec b (- B)) as [B2|B2]; [lra|].
      rewrite !UC_inside by lra. apply Inc; cbn; lra.
  Qed.
End CubTails.
