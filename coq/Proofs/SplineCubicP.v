(* One bin of the cubic spline (generated coefficient, output and log-abs-det formulas, real arithmetic): pinned end points, end
   derivatives as given, derivative of the output = exp(log-abs-det), and STRICT monotonicity whenever both end derivatives lie
   strictly between 0 and three times the bin's slope - which the generated derivative formulas guarantee (boundary knots:
   sigmoid * 3 * slope; inner knots: Steffen's limiter, at most twice the smaller neighbouring slope). *)
From Coq Require Import Reals Lra Lia.
From Coquelicot Require Import Coquelicot.
From NF Require Import Base.Ops Base.Rops Gen.SplineCubic Proofs.NonlinP.
Open Scope R_scope.

Section CubicBin.
  Variables (xl w yl h dl dr : R).
  Hypothesis (Hw : 0 < w) (Hh : 0 < h).
  Let s := cub_slope Rops h w.
  Let a := cub_coef_a Rops s w dl dr.
  Let b := cub_coef_b Rops s w dl dr.
  Definition cfwd (x : R) : R := cub_fwd_outputs Rops x a b dl yl xl (xl + w).
  Definition clad (x : R) : R := cub_fwd_logabsdet Rops x a b dl yl xl (xl + w).
  Definition cder (x : R) : R := 3 * a * ((x - xl) * (x - xl)) + 2 * b * (x - xl) + dl.

  Lemma s_eq : s = h / w. Proof. reflexivity. Qed.
  Lemma a_eq : a = (dl + dr - 2 * s) / (w * w).
  Proof. unfold a, cub_coef_a, o_sq. cbn [Rops o_div o_sub o_add o_mul o_ofZ]. reflexivity. Qed.
  Lemma b_eq : b = (3 * s - 2 * dl - dr) / w.
  Proof. unfold b, cub_coef_b. cbn [Rops o_div o_sub o_mul o_ofZ]. reflexivity. Qed.

  Lemma cfwd_eq x : cfwd x = a * ((x - xl) * (x - xl) * (x - xl)) + b * ((x - xl) * (x - xl)) + dl * (x - xl) + yl.
  Proof. unfold cfwd, cub_fwd_outputs, o_cube, o_sq. cbn [Rops o_add o_mul o_sub]. ring. Qed.

  Theorem cubic_end_points : cfwd xl = yl /\ cfwd (xl + w) = yl + h.
  Proof.
    rewrite !cfwd_eq, a_eq, b_eq, s_eq. split; [ring|]. field. lra.
  Qed.

  Theorem cubic_derive x : is_derive cfwd x (cder x).
  Proof.
    unfold cfwd, cub_fwd_outputs, o_cube, o_sq, cder. cbn [Rops o_add o_mul o_sub]. auto_derive; [exact I | ring].
  Qed.

  Theorem cubic_end_derivatives : cder xl = dl /\ cder (xl + w) = dr.
  Proof. unfold cder. rewrite a_eq, b_eq, s_eq. split; [ring | field; lra]. Qed.

  Theorem cubic_lad_is_ln_derivative x : clad x = ln (cder x).
  Proof. unfold clad, cub_fwd_logabsdet, o_sq, cder. cbn [Rops o_ln o_add o_mul o_sub o_ofZ]. reflexivity. Qed.

  (* positivity of the derivative: in Bernstein form on tau = (x - xl) / w the derivative is
     dl (1-tau)^2 + 2 (3 s - dl - dr) tau (1-tau) + dr tau^2 *)
  Lemma cder_bernstein x : cder x = dl * ((1 - (x - xl) / w) * (1 - (x - xl) / w))
                                   + 2 * (3 * s - dl - dr) * ((x - xl) / w * (1 - (x - xl) / w))
                                   + dr * ((x - xl) / w * ((x - xl) / w)).
  Proof. unfold cder. rewrite a_eq, b_eq. field. apply Rgt_not_eq. exact Hw. Qed.

  Lemma quad_form_pos (A Bc G u v : R) : 0 < A -> 0 < Bc -> 0 <= u -> 0 <= v -> 0 < u + v ->
    (G <= 0 \/ G * G < A * Bc) -> 0 < A * (u * u) - 2 * G * (u * v) + Bc * (v * v).
  Proof.
    intros HA HB Hu Hv Huv [HG|HG].
    - assert (Huv0 : 0 <= u * v) by (apply Rmult_le_pos; assumption).
      assert (0 <= - 2 * G * (u * v)) by (replace (- 2 * G * (u * v)) with (2 * (- G) * (u * v)) by ring; apply Rmult_le_pos; [lra | exact Huv0]).
      assert (0 < A * (u * u) + Bc * (v * v)).
      { destruct (Rle_lt_or_eq_dec 0 u Hu) as [Pu|Zu].
        - assert (0 < A * (u * u)) by (apply Rmult_lt_0_compat; [exact HA | apply Rmult_lt_0_compat; exact Pu]).
          assert (0 <= Bc * (v * v)) by (apply Rmult_le_pos; [lra | apply Rmult_le_pos; exact Hv]). lra.
        - rewrite <- Zu in *. assert (0 < v) by lra.
          assert (0 < Bc * (v * v)) by (apply Rmult_lt_0_compat; [exact HB | apply Rmult_lt_0_compat; assumption]). lra. }
      lra.
    - assert (E : A * (A * (u * u) - 2 * G * (u * v) + Bc * (v * v)) = (A * u - G * v) * (A * u - G * v) + (A * Bc - G * G) * (v * v)) by ring.
      assert (0 < A * (A * (u * u) - 2 * G * (u * v) + Bc * (v * v))).
      { rewrite E. assert (Sq : 0 <= (A * u - G * v) * (A * u - G * v)) by apply Rle_0_sqr.
        destruct (Rle_lt_or_eq_dec 0 v Hv) as [Pv|Zv].
        - assert (0 < (A * Bc - G * G) * (v * v)) by (apply Rmult_lt_0_compat; [lra | apply Rmult_lt_0_compat; exact Pv]). lra.
        - rewrite <- Zv in *. assert (Pu : 0 < u) by lra. replace (A * u - G * 0) with (A * u) by ring.
          assert (0 < A * u) by (apply Rmult_lt_0_compat; assumption).
          assert (0 < A * u * (A * u)) by (apply Rmult_lt_0_compat; assumption). lra. }
      apply (Rmult_lt_reg_l A); [exact HA|]. rewrite Rmult_0_r. exact H.
  Qed.

  Theorem cubic_derivative_positive x : 0 < dl < 3 * s -> 0 < dr < 3 * s -> xl <= x <= xl + w -> 0 < cder x.
  Proof.
    intros [Hl0 Hl3] [Hr0 Hr3] [X1 X2]. rewrite cder_bernstein.
    set (t := (x - xl) / w). assert (Ht : 0 <= t <= 1).
    { unfold t. split; [apply Rmult_le_pos; [lra | left; apply Rinv_0_lt_compat; exact Hw]|].
      apply (Rmult_le_reg_r w); [exact Hw|]. unfold Rdiv. rewrite Rmult_assoc, Rinv_l by lra. lra. }
    assert (Hs : 0 < s) by (rewrite s_eq; apply Rdiv_lt_0_compat; assumption).
    set (G := dl + dr - 3 * s).
    replace (dl * ((1 - t) * (1 - t)) + 2 * (3 * s - dl - dr) * (t * (1 - t)) + dr * (t * t))
      with (dl * ((1 - t) * (1 - t)) - 2 * G * ((1 - t) * t) + dr * (t * t)) by (unfold G; ring).
    apply quad_form_pos; try lra.
    destruct (Rle_lt_dec G 0) as [Gn|Gp]; [left; exact Gn | right].
    (* G > 0: (dl + dr - 3 s)^2 < dl dr, because g = dl^2 + dr^2 + dl dr - 6 s (dl + dr) + 9 s^2 is negative there *)
    unfold G in *. nra.
  Qed.

  Theorem cubic_increasing p q : 0 < dl < 3 * s -> 0 < dr < 3 * s -> xl <= p -> p < q -> q <= xl + w -> cfwd p < cfwd q.
  Proof.
    intros Hl Hr Hp Hpq Hq.
    destruct (MVT_gen cfwd p q cder) as [cx [Hc E]].
    - intros x Hx. apply cubic_derive.
    - intros x Hx. apply continuity_pt_filterlim. apply (ex_derive_continuous cfwd). eexists. apply cubic_derive.
    - rewrite Rmin_left, Rmax_right in Hc by lra. assert (0 < cder cx) by (apply cubic_derivative_positive; try assumption; lra).
      assert (0 < cder cx * (q - p)) by (apply Rmult_lt_0_compat; lra). lra.
  Qed.
End CubicBin.

(* the generated derivative formulas stay strictly inside (0, 3 * slope) *)
Lemma boundary_derivative_in_range u sl : 0 < sl ->
  0 < cub_derivative_left Rops u sl < 3 * sl /\ 0 < cub_derivative_right Rops u sl < 3 * sl.
Proof.
  intros Hs. unfold cub_derivative_left, cub_derivative_right. cbn [Rops o_mul o_ofZ].
  assert (E : o_sigmoid Rops u = sig u) by (unfold o_sigmoid, sig; cbn [Rops o_div o_one o_add o_exp o_neg]; reflexivity).
  rewrite E. pose proof (sig_pos u) as [P1 P2]. split; split; nra.
Qed.

Lemma inner_derivative_in_range s1 s2 w1 w2 : 0 < s1 -> 0 < s2 -> 0 < w1 -> 0 < w2 ->
  let d := cub_inner_derivative Rops (cub_min_something Rops (cub_min_something_1 Rops s1 s2 w1 w2) (cub_min_something_2 Rops s1 s2 w1 w2)) s1 s2 w1 w2 in
  0 < d /\ d <= 2 * s1 /\ d <= 2 * s2.
Proof.
  intros H1 H2 W1 W2. cbv zeta.
  unfold cub_inner_derivative, cub_min_something, cub_min_something_1, cub_min_something_2, o_min, o_sign, o_lit.
  cbn [Rops o_mul o_add o_abs o_div o_leb o_ltb o_ofZ o_zero o_one o_neg].
  rewrite !Rabs_right by lra.
  assert (S1 : Rltb 0 s1 = true) by (apply Rltb_true; exact H1). assert (S2 : Rltb 0 s2 = true) by (apply Rltb_true; exact H2).
  rewrite ?S1, ?S2.
  set (m2 := 1 / 2 * (w2 * s1 + w1 * s2) / (w1 + w2)).
  assert (Hm2 : 0 < m2) by (unfold m2; apply Rdiv_lt_0_compat; nra).
  destruct (Rleb s1 s2) eqn:E1; [apply Rleb_true in E1 | apply Rleb_false in E1].
  - destruct (Rleb s1 m2) eqn:E2; [apply Rleb_true in E2 | apply Rleb_false in E2]; lra.
  - destruct (Rleb s2 m2) eqn:E2; [apply Rleb_true in E2 | apply Rleb_false in E2]; lra.
Qed.
