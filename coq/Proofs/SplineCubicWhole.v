(* The WHOLE monotone-cubic (Steffen) spline, forward direction, from any unnormalised parameters: widths and heights from softmax
   + affine, cumulative tables = partial sums, slopes, boundary derivatives sigmoid * 3 * slope, interior derivatives by Steffen's
   limiter, bin lookup by searchsorted, then the bin's cubic.  For every accepted configuration and ALL parameters: every input
   of the box is accepted and mapped into [bottom, top], the end points are pinned, the log-abs-det is the logarithm of a
   positive derivative and the map is strictly increasing across bins.  (The inverse branch is the recorded known finding.) *)
From Coq Require Import Reals ZArith List Bool Arith Lia Lra Sorted.
From Coquelicot Require Import Coquelicot.
From NF Require Import Base.Ops Base.Rops Base.Result Gen.Utils Gen.SplineCubic Model.Utils Model.Vec Model.SplineRQ
  Model.SplineCubic Proofs.VecR Proofs.NonlinP Proofs.SplineLQP Proofs.SplineCubicP Proofs.UtilsR Proofs.SplineQuadWhole.
Import ListNotations.
Open Scope R_scope.

(* ---- list facts ---- *)
Lemma map2_length (f : R -> R -> R) a b : length a = length b -> length (map2 f a b) = length a.
Proof. intros H. unfold map2. rewrite map_length, combine_length, H. apply Nat.min_id. Qed.

Lemma map2_nth (f : R -> R -> R) a b k : length a = length b -> (k < length a)%nat ->
  nth k (map2 f a b) 0 = f (nth k a 0) (nth k b 0).
Proof.
  intros H Hk. unfold map2.
  rewrite (nth_indep _ 0 ((fun p : R * R => f (fst p) (snd p)) (0, 0))) by (rewrite map_length, combine_length, H, Nat.min_id; rewrite <- H; exact Hk).
  rewrite (map_nth (fun p : R * R => f (fst p) (snd p)) (combine a b) (0, 0) k). rewrite combine_nth by exact H. reflexivity.
Qed.

Lemma inner_derivs_cons sl sr ss wl wr ws :
  inner_derivs Rops (sl :: sr :: ss) (wl :: wr :: ws)
  = cub_inner_derivative Rops (cub_min_something Rops (cub_min_something_1 Rops sl sr wl wr) (cub_min_something_2 Rops sl sr wl wr)) sl sr wl wr
    :: inner_derivs Rops (sr :: ss) (wr :: ws).
Proof. reflexivity. Qed.

Lemma inner_derivs_length ss ws : length ss = length ws -> length (inner_derivs Rops ss ws) = (length ss - 1)%nat.
Proof.
  revert ws; induction ss as [|sl ss IH]; intros ws H; [reflexivity|].
  destruct ws as [|wl ws]; [simpl in H; lia|].
  destruct ss as [|sr ss]; [destruct ws; reflexivity|]. destruct ws as [|wr ws]; [simpl in H; lia|].
  rewrite inner_derivs_cons. cbn [length]. rewrite IH by (simpl in *; lia). simpl. lia.
Qed.

Lemma inner_derivs_nth ss ws k : length ss = length ws -> (S k < length ss)%nat ->
  nth k (inner_derivs Rops ss ws) 0
  = cub_inner_derivative Rops (cub_min_something Rops (cub_min_something_1 Rops (nth k ss 0) (nth (S k) ss 0) (nth k ws 0) (nth (S k) ws 0))
                                                     (cub_min_something_2 Rops (nth k ss 0) (nth (S k) ss 0) (nth k ws 0) (nth (S k) ws 0)))
                         (nth k ss 0) (nth (S k) ss 0) (nth k ws 0) (nth (S k) ws 0).
Proof.
  revert ws k; induction ss as [|sl ss IH]; intros ws k H Hk; [simpl in Hk; lia|].
  destruct ws as [|wl ws]; [simpl in H; lia|].
  destruct ss as [|sr ss]; [simpl in Hk; lia|]. destruct ws as [|wr ws]; [simpl in H; lia|].
  rewrite inner_derivs_cons. destruct k as [|k]; [reflexivity|].
  change (nth (S k) (?a :: inner_derivs Rops (sr :: ss) (wr :: ws)) 0) with (nth k (inner_derivs Rops (sr :: ss) (wr :: ws)) 0).
  rewrite IH by (simpl in *; lia). reflexivity.
Qed.

Lemma nth_last_cons (a r : R) l : nth (S (length l)) (a :: l ++ [r]) 0 = r.
Proof. cbn [nth]. rewrite app_nth2 by lia. rewrite Nat.sub_diag. reflexivity. Qed.

Section CWhole.
  Variables (minw minh eps thr : R) (bx : @box R) (uw uh : list R) (ul ur : R).
  Let K := length uw.
  Hypothesis (HK : uw <> []) (Hlh : length uh = K)
             (Hw0 : 0 <= minw) (HwK : minw * INR K <= 1) (Hh0 : 0 <= minh) (HhK : minh * INR K <= 1)
             (Hlr : b_left bx < b_right bx) (Hbt : b_bottom bx < b_top bx).

  Let ws := c_widths Rops minw uw.
  Let hs := c_heights Rops minh uh.
  Let ss := map2 (cub_slope Rops) hs ws.
  Let ds := c_derivs Rops ss ws ul ur.

  Lemma cK_pos : (0 < K)%nat.
  Proof. assert (length uw <> 0%nat) by (intro E; apply length_zero_iff_nil in E; exact (HK E)). unfold K. lia. Qed.
  Lemma uh_ne : uh <> [].
  Proof. intro E. pose proof cK_pos as KP. pose proof Hlh as H. rewrite E in H. simpl in H. lia. Qed.

  Lemma affine_softmax_facts (m : R) (u : list R) : u <> [] -> 0 <= m -> m * INR (length u) <= 1 ->
    let l := map (fun v => m + (1 - m * INR (length u)) * v) (softmax Rops u) in
    length l = length u /\ List.Forall (fun v => 0 < v) l /\ vsumR l = 1.
  Proof.
    intros Hne Hm0 HmK. cbv zeta. split; [rewrite map_length, softmax_length; reflexivity|]. split.
    - rewrite Forall_forall. intros v Hv. rewrite in_map_iff in Hv. destruct Hv as [s [<- Hs]].
      pose proof (softmax_pos u Hne) as P. rewrite Forall_forall in P. specialize (P s Hs).
      destruct (Rle_lt_or_eq_dec 0 m Hm0) as [Hp|<-].
      + assert (0 <= (1 - m * INR (length u)) * s) by (apply Rmult_le_pos; lra). lra.
      + nra.
    - rewrite (vsum_map_affine m (1 - m * INR (length u))). rewrite softmax_length, softmax_sum by exact Hne. lra.
  Qed.

  Lemma ws_is : ws = map (fun v => minw + (1 - minw * INR (length uw)) * v) (softmax Rops uw).
  Proof.
    unfold ws, c_widths. apply map_ext. intros v. unfold cub_width_affine. cbn [o_add o_mul o_sub o_ofZ Rops].
    rewrite <- INR_IZR_INZ. change (IZR 1) with 1. reflexivity.
  Qed.
  Lemma hs_is : hs = map (fun v => minh + (1 - minh * INR (length uh)) * v) (softmax Rops uh).
  Proof.
    unfold hs, c_heights. apply map_ext. intros v. unfold cub_height_affine. cbn [o_add o_mul o_sub o_ofZ Rops].
    rewrite <- INR_IZR_INZ. change (IZR 1) with 1. reflexivity.
  Qed.

  Lemma ws_facts : length ws = K /\ List.Forall (fun v => 0 < v) ws /\ vsumR ws = 1.
  Proof. rewrite ws_is. apply (affine_softmax_facts minw uw HK Hw0). exact HwK. Qed.
  Lemma hs_facts : length hs = K /\ List.Forall (fun v => 0 < v) hs /\ vsumR hs = 1.
  Proof. rewrite hs_is. rewrite <- Hlh. apply (affine_softmax_facts minh uh uh_ne Hh0). rewrite Hlh. exact HhK. Qed.

  Lemma cws_nth_pos k : (k < K)%nat -> 0 < nth k ws 0.
  Proof. intros Hk. destruct ws_facts as [L [P _]]. rewrite Forall_forall in P. apply P. apply nth_In. rewrite L. exact Hk. Qed.
  Lemma chs_nth_pos k : (k < K)%nat -> 0 < nth k hs 0.
  Proof. intros Hk. destruct hs_facts as [L [P _]]. rewrite Forall_forall in P. apply P. apply nth_In. rewrite L. exact Hk. Qed.

  Lemma ss_length : length ss = K.
  Proof. unfold ss. destruct ws_facts as [Lw _]. destruct hs_facts as [Lh _]. rewrite map2_length by lia. exact Lh. Qed.
  Lemma ss_nth k : (k < K)%nat -> nth k ss 0 = nth k hs 0 / nth k ws 0.
  Proof.
    intros Hk. unfold ss. destruct ws_facts as [Lw _]. destruct hs_facts as [Lh _]. rewrite map2_nth by lia.
    unfold cub_slope. cbn [o_div Rops]. reflexivity.
  Qed.
  Lemma ss_nth_pos k : (k < K)%nat -> 0 < nth k ss 0.
  Proof. intros Hk. rewrite ss_nth by exact Hk. apply Rdiv_lt_0_compat; [apply chs_nth_pos | apply cws_nth_pos]; exact Hk. Qed.

  (* cumulative tables *)
  Definition xk (k : nat) : R := psum ws k.
  Definition yk (k : nat) : R := psum hs k.
  Lemma cum_eq (l : list R) : l <> [] -> vsumR l = 1 -> c_cum Rops l = 0 :: cumsum Rops l.
  Proof. intros H1 H2. unfold c_cum. cbn [o_zero o_ofZ Rops]. change (IZR 1) with 1. apply pinned; assumption. Qed.
  Lemma cws_ne : ws <> [].
  Proof. destruct ws_facts as [L _]. intro E. rewrite E in L. simpl in L. pose proof cK_pos. lia. Qed.
  Lemma chs_ne : hs <> [].
  Proof. destruct hs_facts as [L _]. intro E. rewrite E in L. simpl in L. pose proof cK_pos. lia. Qed.
  Lemma cw_nth k : (k <= K)%nat -> nth k (c_cum Rops ws) 0 = xk k.
  Proof. intros Hk. destruct ws_facts as [L [_ S]]. rewrite cum_eq by (try apply cws_ne; exact S). apply zcumsum_nth. lia. Qed.
  Lemma ch_nth k : (k <= K)%nat -> nth k (c_cum Rops hs) 0 = yk k.
  Proof. intros Hk. destruct hs_facts as [L [_ S]]. rewrite cum_eq by (try apply chs_ne; exact S). apply zcumsum_nth. lia. Qed.
  Lemma cw_length : length (c_cum Rops ws) = S K.
  Proof. destruct ws_facts as [L [_ S]]. rewrite cum_eq by (try apply cws_ne; exact S). cbn [length]. rewrite cumsum_length. lia. Qed.
  Lemma xk_increasing i j : (i < j)%nat -> (j <= K)%nat -> xk i < xk j.
  Proof. intros Hij Hj. destruct ws_facts as [L [P _]]. unfold xk. apply psum_lt; [exact P | exact Hij | lia]. Qed.
  Lemma yk_increasing i j : (i < j)%nat -> (j <= K)%nat -> yk i < yk j.
  Proof. intros Hij Hj. destruct hs_facts as [L [P _]]. unfold yk. apply psum_lt; [exact P | exact Hij | lia]. Qed.
  Lemma xk_0 : xk 0 = 0. Proof. apply psum_0. Qed.
  Lemma yk_0 : yk 0 = 0. Proof. apply psum_0. Qed.
  Lemma xk_K : xk K = 1. Proof. destruct ws_facts as [L [_ S]]. unfold xk. rewrite <- L, psum_all. exact S. Qed.
  Lemma yk_K : yk K = 1. Proof. destruct hs_facts as [L [_ S]]. unfold yk. rewrite <- L, psum_all. exact S. Qed.
  Lemma xk_S k : (k < K)%nat -> xk (S k) = xk k + nth k ws 0.
  Proof. intros Hk. destruct ws_facts as [L _]. unfold xk. apply psum_S. lia. Qed.
  Lemma yk_S k : (k < K)%nat -> yk (S k) = yk k + nth k hs 0.
  Proof. intros Hk. destruct hs_facts as [L _]. unfold yk. apply psum_S. lia. Qed.
  Lemma cw_sorted : StronglySorted Rlt (c_cum Rops ws).
  Proof. apply sorted_of_nth. intros i j Hij Hj. rewrite cw_length in Hj. rewrite !cw_nth by lia. apply xk_increasing; lia. Qed.

  (* derivative vector: boundary, Steffen-limited interior, boundary - all admissible for BOTH adjacent bins *)
  Lemma ds_length : length ds = S K.
  Proof.
    unfold ds, c_derivs. cbn [length]. rewrite app_length. cbn [length].
    destruct ws_facts as [Lw _]. rewrite inner_derivs_length by (rewrite ss_length; lia). rewrite ss_length. pose proof cK_pos. lia.
  Qed.

  Lemma ds_admissible k : (k < K)%nat ->
    0 < nth k ds 0 < 3 * nth k ss 0 /\ 0 < nth (S k) ds 0 < 3 * nth k ss 0.
  Proof.
    intros Hk. pose proof cK_pos as KP. destruct ws_facts as [Lw _].
    assert (Lin : length (inner_derivs Rops ss ws) = (K - 1)%nat) by (rewrite inner_derivs_length by (rewrite ss_length; lia); rewrite ss_length; reflexivity).
    assert (Hleft : forall j, (j < K)%nat -> nth j ds 0 =
              if Nat.eqb j 0 then cub_derivative_left Rops ul (nth 0 ss 0) else nth (j - 1) (inner_derivs Rops ss ws) 0).
    { intros j Hj. unfold ds, c_derivs. destruct j as [|j]; [reflexivity|]. cbn [nth Nat.eqb].
      rewrite app_nth1 by (rewrite Lin; lia). replace (S j - 1)%nat with j by lia. reflexivity. }
    assert (Hlast : nth (S (length (inner_derivs Rops ss ws))) ds 0 = cub_derivative_right Rops ur (nth (K - 1) ss 0)).
    { unfold ds, c_derivs. rewrite nth_last_cons. rewrite last_nth, ss_length. reflexivity. }
    assert (Hinner : forall j, (S j < K)%nat ->
              0 < nth j (inner_derivs Rops ss ws) 0 /\ nth j (inner_derivs Rops ss ws) 0 <= 2 * nth j ss 0
              /\ nth j (inner_derivs Rops ss ws) 0 <= 2 * nth (S j) ss 0).
    { intros j Hj. rewrite inner_derivs_nth by (rewrite ?ss_length; lia).
      apply (inner_derivative_in_range (nth j ss 0) (nth (S j) ss 0) (nth j ws 0) (nth (S j) ws 0));
        [apply ss_nth_pos | apply ss_nth_pos | apply cws_nth_pos | apply cws_nth_pos]; lia. }
    pose proof (ss_nth_pos k Hk) as Ps.
    split.
    - rewrite Hleft by exact Hk. destruct k as [|k]; cbn [Nat.eqb].
      + unfold nthT. destruct (boundary_derivative_in_range ul (nth 0 ss 0) Ps) as [A _]. exact A.
      + replace (S k - 1)%nat with k by lia. destruct (Hinner k ltac:(lia)) as [A [_ B]]. lra.
    - destruct (Nat.eq_dec (S k) K) as [E|N].
      + replace (S k) with (S (length (inner_derivs Rops ss ws))) by (rewrite Lin; lia). rewrite Hlast. replace (K - 1)%nat with k by lia.
        destruct (boundary_derivative_in_range ur (nth k ss 0) Ps) as [_ B]. exact B.
      + rewrite Hleft by lia. cbn [Nat.eqb]. replace (S k - 1)%nat with k by lia.
        destruct (Hinner k ltac:(lia)) as [A [B _]]. lra.
  Qed.

  (* ---- the forward direction on an input of the box ---- *)
  Definition cxnorm (x : R) : R := (x - b_left bx) / (b_right bx - b_left bx).
  Lemma cxnorm_range x : b_left bx <= x <= b_right bx -> 0 <= cxnorm x <= 1.
  Proof.
    intros [A B]. unfold cxnorm. split.
    - apply Rmult_le_pos; [lra | left; apply Rinv_0_lt_compat; lra].
    - apply (Rmult_le_reg_r (b_right bx - b_left bx)); [lra|]. unfold Rdiv. rewrite Rmult_assoc, Rinv_l by lra. lra.
  Qed.

  Definition cfk (k : nat) (xn : R) : R := cfwd (xk k) (nth k ws 0) (yk k) (nth k hs 0) (nth k ds 0) (nth (S k) ds 0) xn.
  Definition cdk (k : nat) (xn : R) : R := cder (xk k) (nth k ws 0) (nth k hs 0) (nth k ds 0) (nth (S k) ds 0) xn.

  Lemma ds_adm k : (k < K)%nat ->
    0 < nth k ds 0 < 3 * cub_slope Rops (nth k hs 0) (nth k ws 0) /\ 0 < nth (S k) ds 0 < 3 * cub_slope Rops (nth k hs 0) (nth k ws 0).
  Proof.
    intros Hk. destruct (ds_admissible k Hk) as [A B]. rewrite ss_nth in A, B by exact Hk.
    unfold cub_slope. cbn [o_div Rops]. split; assumption.
  Qed.

  Lemma cfk_ends k : (k < K)%nat -> cfk k (xk k) = yk k /\ cfk k (xk (S k)) = yk (S k).
  Proof.
    intros Hk. destruct (cubic_end_points (xk k) (nth k ws 0) (yk k) (nth k hs 0) (nth k ds 0) (nth (S k) ds 0) (cws_nth_pos k Hk)) as [E1 E2].
    unfold cfk. rewrite xk_S, yk_S by exact Hk. split; assumption.
  Qed.

  Lemma cfk_increasing k a b : (k < K)%nat -> xk k <= a -> a < b -> b <= xk (S k) -> cfk k a < cfk k b.
  Proof.
    intros Hk Ha Hab Hb. unfold cfk. rewrite xk_S in Hb by exact Hk. destruct (ds_adm k Hk) as [A B].
    apply cubic_increasing; try assumption; [apply cws_nth_pos | apply chs_nth_pos]; exact Hk.
  Qed.

  Lemma cfk_range k xn : (k < K)%nat -> xk k <= xn <= xk (S k) -> yk k <= cfk k xn <= yk (S k).
  Proof.
    intros Hk [A B]. destruct (cfk_ends k Hk) as [E1 E2]. split.
    - destruct (Rle_lt_or_eq_dec _ _ A) as [L|Eq]; [|rewrite <- Eq, E1; lra].
      rewrite <- E1. left. apply cfk_increasing; try assumption; lra.
    - destruct (Rle_lt_or_eq_dec _ _ B) as [L|Eq]; [|rewrite Eq, E2; lra].
      rewrite <- E2. left. apply cfk_increasing; try assumption; lra.
  Qed.

  Lemma yk_bounds k : (k <= K)%nat -> 0 <= yk k <= 1.
  Proof.
    intros Hk. split.
    - destruct k as [|k]; [rewrite yk_0; lra|]. rewrite <- yk_0. left. apply yk_increasing; lia.
    - destruct (Nat.eq_dec k K) as [->|N]; [rewrite yk_K; lra|]. rewrite <- yk_K. left. apply yk_increasing; lia.
  Qed.

  Lemma c_forward_in_bin x : b_left bx <= x <= b_right bx ->
    exists k, (k < K)%nat /\ xk k <= cxnorm x /\ (cxnorm x < xk (S k) \/ S k = K) /\ cxnorm x <= xk (S k) /\
      cubic_spline Rops minw minh eps thr false bx uw uh ul ur x
      = Ok (cfk k (cxnorm x) * (b_top bx - b_bottom bx) + b_bottom bx,
            ln (cdk k (cxnorm x)) + ln (b_top bx - b_bottom bx) - ln (b_right bx - b_left bx)).
  Proof.
    intros Hx. pose proof (cxnorm_range x Hx) as Hn. pose proof cK_pos as KP.
    assert (H0 : nth 0 (c_cum Rops ws) 0 = 0) by (rewrite cw_nth by lia; apply xk_0).
    assert (H1 : nth K (c_cum Rops ws) 0 = 1) by (rewrite cw_nth by lia; apply xk_K).
    destruct (searchsorted_spec (c_cum Rops ws) (cxnorm x) K cw_length KP cw_sorted) as [k [Ek [HkK [Hge Hlt]]]]; [rewrite H0, H1; exact Hn|].
    rewrite cw_nth in Hge by lia. rewrite cw_nth in Hlt by lia.
    exists k. split; [exact HkK|]. split; [exact Hge|]. split; [exact Hlt|].
    assert (Hle : cxnorm x <= xk (S k)).
    { destruct Hlt as [L|E]; [lra|]. rewrite E, xk_K. lra. }
    split; [exact Hle|].
    unfold cubic_spline. cbn [cub_bounds]. unfold cub_rejects. cbn [o_ltb Rops].
    assert (R1 : Rltb x (b_left bx) = false) by (apply Rltb_false; lra).
    assert (R2 : Rltb (b_right bx) x = false) by (apply Rltb_false; lra).
    rewrite R1, R2. cbn [orb]. fold K. cbn [o_one o_mul o_ofZ Rops]. rewrite <- INR_IZR_INZ.
    assert (R3 : Rltb 1 (minw * INR K) = false) by (apply Rltb_false; exact HwK).
    assert (R4 : Rltb 1 (minh * INR K) = false) by (apply Rltb_false; exact HhK).
    change (IZR 1) with 1. rewrite R3, R4. fold ws. fold hs. fold ss. fold ds.
    unfold cub_fwd_normalise_inputs. cbn [Rops o_div o_sub]. fold (cxnorm x).
    rewrite Ek, Nat2Z.id. assert (R5 : Nat.leb K k = false) by (apply Nat.leb_gt; exact HkK). rewrite R5.
    unfold nthT. cbn [o_zero Rops]. rewrite (cw_nth k) by lia. rewrite (cw_nth (S k)) by lia. rewrite (ch_nth k) by lia.
    rewrite (ss_nth k HkK).
    unfold cub_fwd_denormalise_outputs, cub_fwd_denormalise_logabsdet. cbn [Rops o_add o_mul o_sub o_ln].
    change (cub_fwd_outputs Rops (cxnorm x) (cub_coef_a Rops (nth k hs 0 / nth k ws 0) (nth k ws 0) (nth k ds 0) (nth (S k) ds 0))
              (cub_coef_b Rops (nth k hs 0 / nth k ws 0) (nth k ws 0) (nth k ds 0) (nth (S k) ds 0)) (nth k ds 0) (yk k) (xk k) (xk (S k)))
      with (cfk k (cxnorm x)).
    change (cub_fwd_logabsdet Rops (cxnorm x) (cub_coef_a Rops (nth k hs 0 / nth k ws 0) (nth k ws 0) (nth k ds 0) (nth (S k) ds 0))
              (cub_coef_b Rops (nth k hs 0 / nth k ws 0) (nth k ws 0) (nth k ds 0) (nth (S k) ds 0)) (nth k ds 0) (yk k) (xk k) (xk (S k)))
      with (clad (xk k) (nth k ws 0) (yk k) (nth k hs 0) (nth k ds 0) (nth (S k) ds 0) (cxnorm x)).
    rewrite cubic_lad_is_ln_derivative. reflexivity.
  Qed.

  Definition CF (x : R) : R := match cubic_spline Rops minw minh eps thr false bx uw uh ul ur x with Ok (y, _) => y | _ => 0 end.

  (* accepted, inside [bottom, top], log-abs-det = ln of a positive derivative; end points pinned; strictly increasing *)
  Theorem cubic_whole :
    (forall x, b_left bx <= x <= b_right bx ->
       exists y l, cubic_spline Rops minw minh eps thr false bx uw uh ul ur x = Ok (y, l) /\ (b_bottom bx <= y <= b_top bx) /\ (exists d, 0 < d /\ l = ln d)) /\
    (CF (b_left bx) = b_bottom bx /\ CF (b_right bx) = b_top bx) /\
    (forall a b, b_left bx <= a -> a < b -> b <= b_right bx -> CF a < CF b).
  Proof.
    split; [|split].
    - intros x Hx. destruct (c_forward_in_bin x Hx) as [k [Hk [Hge [Hlt [Hle E]]]]].
      eexists. eexists. split; [exact E|].
      pose proof (cfk_range k (cxnorm x) Hk (conj Hge Hle)) as [Ra Rb].
      pose proof (yk_bounds k ltac:(lia)) as [C0 _]. pose proof (yk_bounds (S k) ltac:(lia)) as [_ C1].
      split; [nra|].
      assert (Ps : 0 < cdk k (cxnorm x)).
      { unfold cdk. destruct (ds_adm k Hk) as [A B]. apply cubic_derivative_positive; try assumption;
          [apply cws_nth_pos; exact Hk | apply chs_nth_pos; exact Hk | rewrite <- xk_S by exact Hk; split; assumption]. }
      exists (cdk k (cxnorm x) * (b_top bx - b_bottom bx) / (b_right bx - b_left bx)). split.
      + apply Rdiv_lt_0_compat; [|lra]. apply Rmult_lt_0_compat; [exact Ps | lra].
      + unfold Rdiv. rewrite ln_mult; [| apply Rmult_lt_0_compat; [exact Ps | lra] | apply Rinv_0_lt_compat; lra].
        rewrite ln_mult; [| exact Ps | lra]. rewrite ln_Rinv by lra. lra.
    - split.
      + destruct (c_forward_in_bin (b_left bx) ltac:(lra)) as [k [Hk [Hge [Hlt [Hle E]]]]]. unfold CF. rewrite E.
        assert (En : cxnorm (b_left bx) = 0) by (unfold cxnorm; field; lra). rewrite En in *.
        assert (k = 0%nat).
        { destruct k as [|k]; [reflexivity|]. exfalso. assert (xk 0 < xk (S k)) by (apply xk_increasing; lia). rewrite xk_0 in H. lra. }
        subst k. rewrite <- xk_0 at 1. destruct (cfk_ends 0 Hk) as [E1 _]. rewrite E1, yk_0. lra.
      + destruct (c_forward_in_bin (b_right bx) ltac:(lra)) as [k [Hk [Hge [Hlt [Hle E]]]]]. unfold CF. rewrite E.
        assert (En : cxnorm (b_right bx) = 1) by (unfold cxnorm; field; lra). rewrite En in *.
        assert (S k = K).
        { destruct Hlt as [L|Eq]; [|exact Eq]. exfalso.
          assert (xk (S k) <= xk K). { destruct (Nat.eq_dec (S k) K) as [->|N]; [lra|]. left. apply xk_increasing; lia. }
          rewrite xk_K in H. lra. }
        assert (E1 : xk (S k) = 1) by (rewrite H; apply xk_K).
        rewrite <- E1 at 1. destruct (cfk_ends k Hk) as [_ E2]. rewrite E2, H, yk_K. lra.
    - intros a b Ha Hab Hb.
      destruct (c_forward_in_bin a ltac:(lra)) as [ka [Hka [Ga [La [Lea Ea]]]]].
      destruct (c_forward_in_bin b ltac:(lra)) as [kb [Hkb [Gb [Lb [Leb Eb]]]]].
      unfold CF. rewrite Ea, Eb.
      assert (Hn : cxnorm a < cxnorm b) by (unfold cxnorm; apply Rmult_lt_compat_r; [apply Rinv_0_lt_compat; lra | lra]).
      assert (cfk ka (cxnorm a) < cfk kb (cxnorm b)); [|nra].
      destruct (lt_eq_lt_dec ka kb) as [[L|E]|L].
      + pose proof (cfk_range kb (cxnorm b) Hkb (conj Gb Leb)) as [Rb _].
        assert (Hs : cfk ka (cxnorm a) < yk (S ka)).
        { destruct La as [La|La]; [|lia]. destruct (cfk_ends ka Hka) as [_ E2]. rewrite <- E2.
          apply cfk_increasing; try assumption; lra. }
        assert (yk (S ka) <= yk kb). { destruct (Nat.eq_dec (S ka) kb) as [->|N]; [lra|]. left. apply yk_increasing; lia. }
        lra.
      + subst kb. apply cfk_increasing; try assumption.
      + exfalso. destruct Lb as [Lb|Lb]; [|lia].
        assert (xk (S kb) <= xk ka). { destruct (Nat.eq_dec (S kb) ka) as [->|N]; [lra|]. left. apply xk_increasing; lia. }
        lra.
  Qed.
End CWhole.
