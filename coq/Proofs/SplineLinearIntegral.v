(* Change of variables through the WHOLE piecewise-linear spline (Model/SplineLinear.v over the generated formulas): for any
   unnormalised pdf, any non-degenerate box and any base density phi continuous on [bottom, top],
       int_left^right phi(F x) exp(logabsdet x) dx = int_bottom^top phi,
   although the log-abs-det jumps at every knot (the integrand is only piecewise continuous: the bins are integrated one by one
   and chained). *)
From Coq Require Import Reals ZArith List Bool Arith Lia Lra.
From Coquelicot Require Import Coquelicot.
From NF Require Import Base.Ops Base.Rops Base.Result Gen.SplineLinear Model.Utils Model.Vec Model.SplineRQ Model.SplineLinear
  Gen.Dist Proofs.VecR Proofs.FlowP Proofs.SplineLinearWhole Proofs.Glue.
Import ListNotations.
Open Scope R_scope.

Section LinIntegral.
  Variables (bx : @box R) (u : list R).
  Let K := length u.
  Hypothesis (Hne : u <> []) (Hlr : b_left bx < b_right bx) (Hbt : b_bottom bx < b_top bx).
  Let pdf := lin_pdf Rops u.
  Variable phi : R -> R.
  Hypothesis Hphi : forall y, b_bottom bx <= y <= b_top bx -> continuous phi y.

  Let W := b_right bx - b_left bx.
  Let H := b_top bx - b_bottom bx.

  Definition xl (k : nat) : R := b_left bx + INR k / INR K * W.
  Definition yl (k : nat) : R := psum pdf k * H + b_bottom bx.
  Definition line (k : nat) (x : R) : R := (psum pdf k + (xnorm bx x * INR K - INR k) * nth k pdf 0) * H + b_bottom bx.
  Definition slope (k : nat) : R := INR K * nth k pdf 0 * H / W.

  Lemma KposR : 0 < INR K.
  Proof. apply lt_0_INR. unfold K. destruct u; [contradiction | simpl; lia]. Qed.

  Lemma xnorm_xl k : xnorm bx (xl k) * INR K = INR k.
  Proof. pose proof KposR. unfold xnorm, xl, W. field. split; lra. Qed.

  Lemma line_left k : line k (xl k) = yl k.
  Proof. unfold line, yl. rewrite xnorm_xl. ring. Qed.

  Lemma line_right k : (k < K)%nat -> line k (xl (S k)) = yl (S k).
  Proof.
    intros Hk. unfold line, yl. rewrite xnorm_xl. rewrite psum_S by (unfold pdf; rewrite pdf_length; exact Hk).
    rewrite S_INR. ring.
  Qed.

  Lemma xl_step k : xl (S k) = xl k + W / INR K.
  Proof. pose proof KposR. unfold xl. rewrite S_INR. field. lra. Qed.

  Lemma xl_within k : (k <= K)%nat -> b_left bx <= xl k <= b_right bx.
  Proof.
    intros Hk. pose proof KposR as KP. apply le_INR in Hk. pose proof (pos_INR k) as P. unfold xl, W.
    assert (0 <= INR k / INR K <= 1).
    { split; [apply Rmult_le_pos; [exact P | left; apply Rinv_0_lt_compat; exact KP]|].
      apply (Rmult_le_reg_r (INR K)); [exact KP|]. unfold Rdiv. rewrite Rmult_assoc, Rinv_l by lra. lra. }
    nra.
  Qed.

  Lemma yl_within k : (k <= K)%nat -> b_bottom bx <= yl k <= b_top bx.
  Proof. intros Hk. pose proof (psum_le_1 u Hne k Hk) as [A B]. fold pdf in A, B. unfold yl, H. nra. Qed.

  Lemma yl_step k : (k < K)%nat -> yl k < yl (S k).
  Proof.
    intros Hk. unfold yl. rewrite psum_S by (unfold pdf; rewrite pdf_length; exact Hk).
    pose proof (pdf_nth_pos u Hne k Hk) as P. fold pdf in P. unfold H. nra.
  Qed.

  Lemma on_open_bin k x : (k < K)%nat -> xl k < x < xl (S k) -> b_left bx <= x <= b_right bx /\ bin_of u (xnorm bx x) = k.
  Proof.
    intros Hk [A B]. pose proof KposR as KP.
    pose proof (xl_within k ltac:(lia)) as [L0 _]. pose proof (xl_within (S k) ltac:(lia)) as [_ R1].
    assert (Hx : b_left bx <= x <= b_right bx) by lra. split; [exact Hx|].
    pose proof (xnorm_range bx Hlr x Hx) as Hn.
    destruct (bin_of_spec u Hne _ Hn) as [Hb [[C D] _]]. fold K in Hb, C, D.
    assert (E1 : INR k < xnorm bx x * INR K).
    { rewrite <- (xnorm_xl k). apply Rmult_lt_compat_r; [exact KP | apply xnorm_increasing; [exact Hlr | exact A]]. }
    assert (E2 : xnorm bx x * INR K < INR (S k)).
    { rewrite <- (xnorm_xl (S k)). apply Rmult_lt_compat_r; [exact KP | apply xnorm_increasing; [exact Hlr | exact B]]. }
    set (b := bin_of u (xnorm bx x)) in *.
    assert (L1 : (b < S k)%nat) by (apply INR_lt; lra).
    assert (L2 : (k < S b)%nat) by (apply INR_lt; rewrite S_INR; lra).
    lia.
  Qed.

  (* inside a bin (the log-abs-det jumps at the knots, where the spline has a kink) the whole spline is differentiable with
     derivative exp(log-abs-det) *)
  Theorem linear_whole_derivative_off_knots k x : (k < K)%nat -> xl k < x < xl (S k) ->
    is_derive (FL bx u) x (exp (FLlad bx u x)) /\ 0 < exp (FLlad bx u x).
  Proof.
    intros Hk Hx. split; [|apply exp_pos]. pose proof KposR as KP. pose proof (pdf_nth_pos u Hne k Hk) as P. fold pdf in P.
    destruct (on_open_bin k x Hk Hx) as [Hin Eb].
    assert (EL : exp (FLlad bx u x) = slope k).
    { unfold FLlad. rewrite (linear_forward bx u Hne Hlr x Hin). cbv zeta. rewrite Eb. fold K. fold pdf.
      unfold Rminus at 1. rewrite exp_plus, exp_plus, exp_Ropp, !exp_ln by (try lra; apply Rmult_lt_0_compat; assumption).
      unfold slope, H, W. field. lra. }
    rewrite EL.
    apply (derive_ext_near (FL bx u) (line k) x (slope k)).
    - unfold line, xnorm, slope, H, W. auto_derive; [exact I|]. field. lra.
    - exists (Rmin (x - xl k) (xl (S k) - x)). split; [apply Rmin_glb_lt; lra|].
      intros y Hy. assert (Hy' : xl k < y < xl (S k)).
      { pose proof (Rmin_l (x - xl k) (xl (S k) - x)). pose proof (Rmin_r (x - xl k) (xl (S k) - x)). lra. }
      destruct (on_open_bin k y Hk Hy') as [Hiny Eby].
      unfold FL. rewrite (linear_forward bx u Hne Hlr y Hiny). cbv zeta. unfold G. cbv zeta. rewrite Eby. fold K pdf. unfold line, H. ring.
  Qed.

  Lemma piece_integral k : (k < K)%nat ->
    is_RInt (fun x => phi (FL bx u x) * exp (FLlad bx u x)) (xl k) (xl (S k)) (RInt phi (yl k) (yl (S k))).
  Proof.
    intros Hk. pose proof KposR as KP. pose proof (pdf_nth_pos u Hne k Hk) as P. fold pdf in P.
    assert (Hstep : xl k < xl (S k)).
    { rewrite xl_step. assert (0 < W / INR K) by (apply Rdiv_lt_0_compat; [unfold W; lra | exact KP]). lra. }
    rewrite <- (line_left k), <- (line_right k Hk).
    apply (is_RInt_ext (fun x => scal (slope k) (phi (line k x)))).
    - intros x Hx. rewrite Rmin_left, Rmax_right in Hx by lra.
      destruct (on_open_bin k x Hk Hx) as [Hin Eb].
      unfold FL, FLlad. rewrite (linear_forward bx u Hne Hlr x Hin). cbv zeta. rewrite Eb. fold K. fold pdf.
      unfold G. cbv zeta. rewrite Eb. fold K pdf.
      replace (exp (ln (INR K * nth k pdf 0) + ln (b_top bx - b_bottom bx) - ln (b_right bx - b_left bx))) with (slope k).
      + unfold scal; cbn. unfold mult; cbn. unfold line, H. ring.
      + unfold Rminus at 1. rewrite exp_plus, exp_plus, exp_Ropp, !exp_ln by (try lra; apply Rmult_lt_0_compat; assumption).
        unfold slope, H, W. field. lra.
    - apply (change_of_variables_1d (line k) (fun _ => slope k) phi (xl k) (xl (S k))); [lra | | |].
      + intros x _. unfold line, xnorm, slope, H, W. auto_derive; [exact I|]. field. lra.
      + intros x _. apply continuous_const.
      + intros x Hx. apply Hphi.
        pose proof (yl_within k ltac:(lia)) as [Y0 _]. pose proof (yl_within (S k) ltac:(lia)) as [_ Y1].
        assert (Hm : yl k <= line k x <= yl (S k)).
        { rewrite <- (line_left k), <- (line_right k Hk).
          assert (Hs : 0 < slope k).
          { unfold slope. apply Rdiv_lt_0_compat; [|unfold W; lra]. apply Rmult_lt_0_compat; [apply Rmult_lt_0_compat; assumption | unfold H; lra]. }
          assert (Ed : forall a b, line k b - line k a = slope k * (b - a)).
          { intros a b. unfold line, xnorm, slope, H, W. field. lra. }
          pose proof (Ed (xl k) x) as E1. pose proof (Ed x (xl (S k))) as E2. nra. }
        lra.
  Qed.

  Lemma phi_integrable a b : b_bottom bx <= a -> a <= b -> b <= b_top bx -> ex_RInt phi a b.
  Proof.
    intros A B C. apply (ex_RInt_continuous (V := R_CompleteNormedModule)). intros z Hz.
    rewrite Rmin_left, Rmax_right in Hz by exact B. apply Hphi. lra.
  Qed.

  Lemma upto_integral k : (k <= K)%nat ->
    is_RInt (fun x => phi (FL bx u x) * exp (FLlad bx u x)) (xl 0) (xl k) (RInt phi (yl 0) (yl k)).
  Proof.
    induction k as [|k IH]; intros Hk.
    - rewrite RInt_point. apply (is_RInt_point (V := R_NormedModule)).
    - pose proof (yl_within 0 ltac:(lia)) as Y0. pose proof (yl_within k ltac:(lia)) as Yk. pose proof (yl_within (S k) ltac:(lia)) as Ys.
      assert (Y0k : yl 0 <= yl k).
      { clear IH Yk Ys Y0. induction k as [|j IHj]; [lra|]. pose proof (yl_step j ltac:(lia)). specialize (IHj ltac:(lia)). lra. }
      assert (Yks : yl k <= yl (S k)) by (left; apply yl_step; lia).
      rewrite <- (RInt_Chasles phi (yl 0) (yl k) (yl (S k))).
      + apply (is_RInt_Chasles (V := R_NormedModule) _ (xl 0) (xl k) (xl (S k))); [apply IH; lia | apply piece_integral; lia].
      + apply phi_integrable; lra.
      + apply phi_integrable; lra.
  Qed.

  (* the density phi(F x) F'(x) of the linear-spline flow carries exactly the base mass of the target interval *)
  Theorem linear_whole_change_of_variables :
    is_RInt (fun x => phi (FL bx u x) * exp (FLlad bx u x)) (b_left bx) (b_right bx) (RInt phi (b_bottom bx) (b_top bx)).
  Proof.
    pose proof (upto_integral K (le_n K)) as HI. pose proof KposR as KP.
    assert (E0 : xl 0 = b_left bx) by (unfold xl; simpl; unfold Rdiv; rewrite !Rmult_0_l; lra).
    assert (EK : xl K = b_right bx) by (unfold xl, W; field; lra).
    assert (F0 : yl 0 = b_bottom bx) by (unfold yl; rewrite psum_0; lra).
    assert (FK : yl K = b_top bx).
    { unfold yl. replace K with (length pdf) by (unfold pdf; apply pdf_length). rewrite psum_all.
      pose proof (pdf_sum u Hne) as S1. fold pdf in S1. rewrite S1. unfold H. lra. }
    rewrite E0, EK, F0, FK in HI. exact HI.
  Qed.
End LinIntegral.

(* Flow(PiecewiseLinearCDF, uniform on [0,1]): the base log-density is 0 on the unit interval *)
Lemma linear_cdf_flow_normalised (u : list R) : u <> [] ->
  is_RInt (fun x => exp (flow_log_prob Rops 0 (FLlad {| b_left := 0; b_right := 1; b_bottom := 0; b_top := 1 |} u x))) 0 1 1.
Proof.
  intros Hne. set (bx := {| b_left := 0; b_right := 1; b_bottom := 0; b_top := 1 |}).
  pose proof (linear_whole_change_of_variables bx u Hne ltac:(cbn; lra) ltac:(cbn; lra) (fun _ => 1)
                ltac:(intros y _; apply continuous_const)) as HI.
  cbn [b_left b_right b_bottom b_top bx] in HI.
  assert (E : RInt (fun _ : R => 1) 0 1 = 1) by (rewrite RInt_const; unfold scal; cbn; unfold mult; cbn; lra).
  rewrite E in HI.
  apply (is_RInt_ext (fun x => 1 * exp (FLlad bx u x))); [|exact HI].
  intros x _. unfold flow_log_prob. cbn [o_add Rops]. rewrite Rplus_0_l. lra.
Qed.
