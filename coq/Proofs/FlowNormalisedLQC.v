(* The one-dimensional spline flows over a standard normal base for the other three spline families (C03): for the unconstrained
   piecewise-linear, piecewise-quadratic and piecewise-cubic splines (linear tails), every accepted configuration, ALL unnormalised
   parameters and every A beyond the tail bound,
        int_{-A}^{A} exp (log_prob x) dx  =  int_{-A}^{A} standard normal density.
   One generic argument (identity outside [-B, B], the whole-spline change of variables inside, Chasles), instantiated three times. *)
From Coq Require Import Reals ZArith List Bool Arith Lia Lra.
From Coquelicot Require Import Coquelicot.
From NF Require Import Base.Ops Base.Rops Base.Result Gen.Dist Gen.TailWrappers Gen.SplineLinear Gen.SplineQuadratic Gen.SplineCubic Model.SplineRQ Model.SplineLinear Model.SplineQuadratic Model.SplineCubic
  Proofs.DistP Proofs.FlowNormalised
  Proofs.SplineLinearWhole Proofs.SplineLinearIntegral Proofs.SplineLinearTails
  Proofs.SplineQuadWhole Proofs.SplineQuadIntegral Proofs.SplineQuadTails
  Proofs.SplineCubicWhole Proofs.SplineCubicIntegral Proofs.SplineCubicTails.
Import ListNotations.
Open Scope R_scope.

Section Generic.
  Variables (B : R) (Fb Fladb U Ulad : R -> R).
  Hypothesis (HB : 0 < B)
             (Hin : forall x, - B <= x <= B -> U x = Fb x /\ Ulad x = Fladb x)
             (Hout : forall x, x < - B \/ B < x -> U x = x /\ Ulad x = 0)
             (Hcov : forall phi : R -> R, (forall y, continuous phi y) ->
                       is_RInt (fun x => phi (Fb x) * exp (Fladb x)) (- B) B (RInt phi (- B) B)).

  Section Phi.
    Variable phi : R -> R.
    Hypothesis Hphi : forall y, continuous phi y.

    Lemma g_phi_int a b : is_RInt phi a b (RInt phi a b).
    Proof. apply (RInt_correct (V := R_CompleteNormedModule)). apply (ex_RInt_continuous (V := R_CompleteNormedModule)). intros z _. apply Hphi. Qed.

    Lemma g_tail_piece a b : a <= b -> (b <= - B \/ B <= a) -> is_RInt (fun x => phi (U x) * exp (Ulad x)) a b (RInt phi a b).
    Proof.
      intros Hab Ho. apply (is_RInt_ext phi); [|apply g_phi_int].
      intros x Hx. rewrite Rmin_left, Rmax_right in Hx by exact Hab.
      destruct (Hout x ltac:(lra)) as [E1 E2]. rewrite E1, E2, exp_0, Rmult_1_r. reflexivity.
    Qed.

    Lemma g_middle_piece : is_RInt (fun x => phi (U x) * exp (Ulad x)) (- B) B (RInt phi (- B) B).
    Proof.
      apply (is_RInt_ext (fun x => phi (Fb x) * exp (Fladb x))); [|apply Hcov; exact Hphi].
      intros x Hx. rewrite Rmin_left, Rmax_right in Hx by lra. destruct (Hin x ltac:(lra)) as [E1 E2]. rewrite E1, E2. reflexivity.
    Qed.

    Theorem generic_unconstrained_change_of_variables A : B <= A ->
      is_RInt (fun x => phi (U x) * exp (Ulad x)) (- A) A (RInt phi (- A) A).
    Proof.
      intros HA.
      assert (Ex : forall a b, ex_RInt phi a b).
      { intros a b. apply (ex_RInt_continuous (V := R_CompleteNormedModule)). intros z _. apply Hphi. }
      rewrite <- (RInt_Chasles phi (- A) (- B) A) by apply Ex.
      rewrite <- (RInt_Chasles phi (- B) B A) by apply Ex.
      apply (is_RInt_Chasles (V := R_NormedModule) _ (- A) (- B) A); [apply g_tail_piece; lra|].
      apply (is_RInt_Chasles (V := R_NormedModule) _ (- B) B A); [apply g_middle_piece | apply g_tail_piece; lra].
    Qed.
  End Phi.

  Theorem generic_flow_carries_the_base_mass A : B <= A ->
    is_RInt (fun x => exp (flow_log_prob Rops (sn_lp1 (U x)) (Ulad x))) (- A) A (RInt (fun y => exp (sn_lp1 y)) (- A) A).
  Proof.
    intros HA.
    pose proof (generic_unconstrained_change_of_variables (fun y => exp (sn_lp1 y)) sn_density_continuous A HA) as H.
    apply (is_RInt_ext (fun x => exp (sn_lp1 (U x)) * exp (Ulad x))); [|exact H].
    intros x _. unfold flow_log_prob. cbn [Rops o_add]. rewrite exp_plus. reflexivity.
  Qed.
End Generic.

(* ---- piecewise-linear ---- *)
Section LinearFlow.
  Variables (B : R) (u : list R).
  Hypothesis (HB : 0 < B) (Hne : u <> []).
  Let bx : @box R := {| b_left := - B; b_right := B; b_bottom := - B; b_top := B |}.

  Definition ULlad (x : R) : R := match linear_unconstrained Rops false B u x with Ok (_, l) => l | _ => 0 end.

  Lemma ULlad_inside x : - B <= x <= B -> ULlad x = FLlad bx u x.
  Proof. intros Hx. unfold ULlad, linear_unconstrained. apply (lin_inside_iff B) in Hx. rewrite Hx. reflexivity. Qed.

  Lemma ULlad_outside x : x < - B \/ B < x -> ULlad x = 0.
  Proof.
    intros Hx. unfold ULlad, linear_unconstrained. destruct (lin_inside_tails Rops x B) eqn:E; [|reflexivity].
    apply (lin_inside_iff B) in E. lra.
  Qed.

  Theorem linear_flow_carries_the_base_mass A : B <= A ->
    is_RInt (fun x => exp (flow_log_prob Rops (sn_lp1 (UL B u x)) (ULlad x))) (- A) A (RInt (fun y => exp (sn_lp1 y)) (- A) A).
  Proof.
    apply (generic_flow_carries_the_base_mass B (FL bx u) (FLlad bx u) (UL B u) ULlad HB).
    - intros x Hx. split; [apply UL_inside; assumption | apply ULlad_inside; exact Hx].
    - intros x Hx. split; [apply UL_outside; assumption | apply ULlad_outside; exact Hx].
    - intros phi Hphi.
      pose proof (linear_whole_change_of_variables bx u Hne ltac:(cbn; lra) ltac:(cbn; lra) phi (fun y _ => Hphi y)) as H.
      cbn [b_left b_right b_bottom b_top bx] in H. exact H.
  Qed.
End LinearFlow.

(* ---- piecewise-quadratic (the K - 1 heights form the tails wrapper uses) ---- *)
Section QuadraticFlow.
  Variables (minw minh B : R) (uw uh : list R).
  Hypothesis (HB : 0 < B) (HK : uw <> []) (H2 : (2 <= length uw)%nat) (Hlh : length uh = (length uw - 1)%nat)
             (Hw0 : 0 <= minw) (HwK : minw * INR (length uw) <= 1) (Hh0 : 0 <= minh) (HhK : minh * INR (length uw) <= 1).
  Let bx : @box R := {| b_left := - B; b_right := B; b_bottom := - B; b_top := B |}.

  Definition UQlad (x : R) : R := match quadratic_unconstrained Rops minw minh false B uw uh x with Ok (_, l) => l | _ => 0 end.

  Lemma UQlad_inside x : - B <= x <= B -> UQlad x = QFlad minw minh bx uw uh x.
  Proof. intros Hx. unfold UQlad, quadratic_unconstrained. apply (quad_inside_iff B uw uh H2 Hlh) in Hx. rewrite Hx. reflexivity. Qed.

  Lemma UQlad_outside x : x < - B \/ B < x -> UQlad x = 0.
  Proof.
    intros Hx. unfold UQlad, quadratic_unconstrained. destruct (quad_inside_tails Rops x B) eqn:E; [|reflexivity].
    apply (quad_inside_iff B uw uh H2 Hlh) in E. lra.
  Qed.

  Theorem quadratic_flow_carries_the_base_mass A : B <= A ->
    is_RInt (fun x => exp (flow_log_prob Rops (sn_lp1 (UQ minw minh B uw uh x)) (UQlad x))) (- A) A (RInt (fun y => exp (sn_lp1 y)) (- A) A).
  Proof.
    apply (generic_flow_carries_the_base_mass B (QF minw minh bx uw uh) (QFlad minw minh bx uw uh) (UQ minw minh B uw uh) UQlad HB).
    - intros x Hx. split; [apply UQ_inside; assumption | apply UQlad_inside; exact Hx].
    - intros x Hx. split; [apply UQ_outside; assumption | apply UQlad_outside; exact Hx].
    - intros phi Hphi.
      pose proof (quadratic_whole_change_of_variables minw minh bx uw uh HK (or_intror (conj Hlh H2)) Hw0 HwK Hh0 HhK
                    ltac:(cbn; lra) ltac:(cbn; lra) phi (fun y _ => Hphi y)) as H.
      cbn [b_left b_right b_bottom b_top bx] in H. exact H.
  Qed.
End QuadraticFlow.

(* ---- piecewise-cubic ---- *)
Section CubicFlow.
  Variables (minw minh eps thr B : R) (uw uh : list R) (ul ur : R).
  Hypothesis (HB : 0 < B) (HK : uw <> []) (Hlh : length uh = length uw)
             (Hw0 : 0 <= minw) (HwK : minw * INR (length uw) <= 1) (Hh0 : 0 <= minh) (HhK : minh * INR (length uw) <= 1).
  Let bx : @box R := {| b_left := - B; b_right := B; b_bottom := - B; b_top := B |}.

  Definition UClad (x : R) : R := match cubic_unconstrained Rops minw minh eps thr false B uw uh ul ur x with Ok (_, l) => l | _ => 0 end.

  Lemma UClad_inside x : - B <= x <= B -> UClad x = CFlad minw minh eps thr bx uw uh ul ur x.
  Proof. intros Hx. unfold UClad, cubic_unconstrained. apply (cub_inside_iff B) in Hx. rewrite Hx. reflexivity. Qed.

  Lemma UClad_outside x : x < - B \/ B < x -> UClad x = 0.
  Proof.
    intros Hx. unfold UClad, cubic_unconstrained. destruct (cub_inside_tails Rops x B) eqn:E; [|reflexivity].
    apply (cub_inside_iff B) in E. lra.
  Qed.

  Theorem cubic_flow_carries_the_base_mass A : B <= A ->
    is_RInt (fun x => exp (flow_log_prob Rops (sn_lp1 (UC minw minh eps thr B uw uh ul ur x)) (UClad x))) (- A) A (RInt (fun y => exp (sn_lp1 y)) (- A) A).
  Proof.
    apply (generic_flow_carries_the_base_mass B (CF minw minh eps thr bx uw uh ul ur) (CFlad minw minh eps thr bx uw uh ul ur)
             (UC minw minh eps thr B uw uh ul ur) UClad HB).
    - intros x Hx. split; [apply UC_inside; assumption | apply UClad_inside; exact Hx].
    - intros x Hx. split; [apply UC_outside; assumption | apply UClad_outside; exact Hx].
    - intros phi Hphi.
      pose proof (cubic_whole_change_of_variables minw minh eps thr bx uw uh ul ur HK Hlh Hw0 HwK Hh0 HhK
                    ltac:(cbn; lra) ltac:(cbn; lra) phi (fun y _ => Hphi y)) as H.
      cbn [b_left b_right b_bottom b_top bx] in H. exact H.
  Qed.
End CubicFlow.
