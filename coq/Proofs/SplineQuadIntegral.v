(* Change of variables through the WHOLE piecewise-quadratic spline (Model/SplineQuadratic.v over the generated formulas), both
   height forms: for every accepted configuration, ALL unnormalised parameters and every base density phi continuous on
   [bottom, top],   int_left^right phi(F x) exp(logabsdet x) dx = int_bottom^top phi.
   Bin by bin: on the open bin the translated quadratic_spline is the bin's parabola gk with the affine derivative dgk =
   exp(logabsdet); the bins are chained with Chasles. *)
From Coq Require Import Reals ZArith List Bool Arith Lia Lra.
From Coquelicot Require Import Coquelicot.
From NF Require Import Base.Ops Base.Rops Base.Result Gen.Dist Model.SplineRQ Model.SplineQuadratic Proofs.VecR Proofs.SplineLQP Proofs.FlowP
  Proofs.SplineQuadWhole.
Import ListNotations.
Open Scope R_scope.

Section QIntegral.
  Variables (minw minh : R) (bx : @box R) (uw uh : list R).
  Let K := length uw.
  Hypothesis (HK : uw <> []) (Hlh : length uh = S K \/ (length uh = (K - 1)%nat /\ (2 <= K)%nat))
             (Hw0 : 0 <= minw) (HwK : minw * INR K <= 1) (Hh0 : 0 <= minh) (HhK : minh * INR K <= 1)
             (Hlr : b_left bx < b_right bx) (Hbt : b_bottom bx < b_top bx).
  Variable phi : R -> R.
  Hypothesis Hphi : forall y, b_bottom bx <= y <= b_top bx -> continuous phi y.

  Let W := b_right bx - b_left bx.
  Let H := b_top bx - b_bottom bx.
  Let lkk := lk minw uw.
  Let ckk := ck minw minh uw uh.
  Let F := QF minw minh bx uw uh.
  Let Flad := QFlad minw minh bx uw uh.
  Let g := gk minw minh bx uw uh.
  Let dg := dgk minw minh bx uw uh.

  Definition xq (k : nat) : R := lk minw uw k * (b_right bx - b_left bx) + b_left bx.
  Definition yq (k : nat) : R := ck minw minh uw uh k * (b_top bx - b_bottom bx) + b_bottom bx.

  Lemma qn_xq k : qxnorm bx (xq k) = lkk k.
  Proof. unfold xq. apply qxnorm_inv. exact Hlr. Qed.

  Lemma g_left k : (k < K)%nat -> g k (xq k) = yq k.
  Proof.
    intros Hk. unfold g, gk. rewrite qn_xq. destruct (rawk_ends minw minh uw uh HK Hlh Hw0 HwK HhK k Hk) as [E _].
    unfold lkk. rewrite E. reflexivity.
  Qed.

  Lemma g_right k : (k < K)%nat -> g k (xq (S k)) = yq (S k).
  Proof.
    intros Hk. unfold g, gk. rewrite qn_xq. destruct (rawk_ends minw minh uw uh HK Hlh Hw0 HwK HhK k Hk) as [_ E].
    unfold lkk. rewrite E. reflexivity.
  Qed.

  Lemma xq_lt k : (k < K)%nat -> xq k < xq (S k).
  Proof.
    intros Hk. pose proof (lk_increasing minw minh uw uh HK Hw0 HwK k (S k) ltac:(lia) ltac:(fold K; lia)) as L.
    unfold xq. assert (0 < b_right bx - b_left bx) by lra. nra.
  Qed.

  Lemma lkk_bounds k : (k <= K)%nat -> 0 <= lkk k <= 1.
  Proof.
    intros Hk. unfold lkk. split.
    - destruct k as [|k']; [rewrite lk_0; lra|]. rewrite <- (lk_0 minw uw). left. apply (lk_increasing minw minh uw uh HK Hw0 HwK); [lia | fold K; lia].
    - destruct (Nat.eq_dec k K) as [E|N]; [rewrite E; unfold K; rewrite lk_K by exact HK; lra|].
      rewrite <- (lk_K minw uw HK). left. apply (lk_increasing minw minh uw uh HK Hw0 HwK); [fold K; lia | lia].
  Qed.

  Lemma xq_within k : (k <= K)%nat -> b_left bx <= xq k <= b_right bx.
  Proof. intros Hk. pose proof (lkk_bounds k Hk) as [A B]. unfold lkk in A, B. unfold xq. assert (0 < b_right bx - b_left bx) by lra. nra. Qed.

  Lemma yq_within k : (k <= K)%nat -> b_bottom bx <= yq k <= b_top bx.
  Proof.
    intros Hk. pose proof (ck_bounds minw minh uw uh HK Hlh Hw0 HwK Hh0 HhK k Hk) as [A B]. unfold yq.
    assert (0 < b_top bx - b_bottom bx) by lra. nra.
  Qed.

  Lemma yq_lt k : (k < K)%nat -> yq k < yq (S k).
  Proof.
    intros Hk. pose proof (ck_increasing minw minh uw uh HK Hlh Hw0 HwK Hh0 HhK k (S k) ltac:(lia) ltac:(fold K; lia)) as L.
    unfold yq. assert (0 < b_top bx - b_bottom bx) by lra. nra.
  Qed.

  Lemma qn_between k x : xq k <= x <= xq (S k) -> lkk k <= qxnorm bx x <= lkk (S k).
  Proof.
    intros [A B]. rewrite <- (qn_xq k), <- (qn_xq (S k)). split.
    - destruct A as [A|A]; [left; apply qxnorm_lt; assumption | rewrite A; lra].
    - destruct B as [B|B]; [left; apply qxnorm_lt; assumption | rewrite B; lra].
  Qed.

  Lemma dg_continuous k x : continuous (dg k) x.
  Proof.
    apply (ex_derive_continuous (dg k)). unfold dg, dgk, slopek, q_slope, qxnorm. auto_derive. exact I.
  Qed.

  Lemma piece_integral k : (k < K)%nat ->
    is_RInt (fun x => phi (F x) * exp (Flad x)) (xq k) (xq (S k)) (RInt phi (yq k) (yq (S k))).
  Proof.
    intros Hk. pose proof (xq_lt k Hk) as Hstep.
    pose proof (xq_within k ltac:(lia)) as [L0 _]. pose proof (xq_within (S k) ltac:(lia)) as [_ R1].
    rewrite <- (g_left k Hk), <- (g_right k Hk).
    apply (is_RInt_ext (fun x => scal (dg k x) (phi (g k x)))).
    - intros x Hx. rewrite Rmin_left, Rmax_right in Hx by lra. destruct Hx as [A B].
      assert (Hin : b_left bx <= x <= b_right bx) by lra.
      assert (Q1 : lkk k <= qxnorm bx x) by (rewrite <- (qn_xq k); left; apply qxnorm_lt; assumption).
      assert (Q2 : qxnorm bx x < lkk (S k)) by (rewrite <- (qn_xq (S k)); apply qxnorm_lt; assumption).
      destruct (QF_on_bin minw minh bx uw uh HK Hlh Hw0 HwK Hh0 HhK Hlr k x Hk Hin Q1 Q2) as [EF EL].
      unfold F, Flad. rewrite EF, EL.
      pose proof (slopek_pos minw minh uw uh HK Hlh Hw0 HwK Hh0 HhK k (qxnorm bx x) Hk ltac:(unfold lkk in *; lra)) as SP.
      replace (exp (ln (slopek minw minh uw uh k (qxnorm bx x)) + ln (b_top bx - b_bottom bx) - ln (b_right bx - b_left bx))) with (dg k x).
      + unfold scal; cbn. unfold mult; cbn. unfold g. ring.
      + unfold Rminus at 1. rewrite exp_plus, exp_plus, exp_Ropp, !exp_ln by lra. unfold dg, dgk. field. lra.
    - apply (change_of_variables_1d (g k) (dg k) phi (xq k) (xq (S k))); [lra | | |].
      + intros x _. apply (gk_derive minw minh bx uw uh HK Hw0 HwK Hlr k x Hk).
      + intros x _. apply dg_continuous.
      + intros x Hx. apply Hphi. pose proof (qn_between k x Hx) as Q.
        pose proof (rawk_range minw minh uw uh HK Hlh Hw0 HwK Hh0 HhK k (qxnorm bx x) Hk ltac:(unfold lkk in Q; exact Q)) as [C D].
        pose proof (ck_bounds minw minh uw uh HK Hlh Hw0 HwK Hh0 HhK k ltac:(fold K; lia)) as [C0 _].
        pose proof (ck_bounds minw minh uw uh HK Hlh Hw0 HwK Hh0 HhK (S k) ltac:(fold K; lia)) as [_ D1].
        unfold g, gk. assert (0 < b_top bx - b_bottom bx) by lra. nra.
  Qed.

  Lemma phi_integrable a b : b_bottom bx <= a -> a <= b -> b <= b_top bx -> ex_RInt phi a b.
  Proof.
    intros A B C. apply (ex_RInt_continuous (V := R_CompleteNormedModule)). intros z Hz.
    rewrite Rmin_left, Rmax_right in Hz by exact B. apply Hphi. lra.
  Qed.

  Lemma upto_integral k : (k <= K)%nat ->
    is_RInt (fun x => phi (F x) * exp (Flad x)) (xq 0) (xq k) (RInt phi (yq 0) (yq k)).
  Proof.
    induction k as [|k IH]; intros Hk.
    - rewrite RInt_point. apply (is_RInt_point (V := R_NormedModule)).
    - pose proof (yq_within 0 ltac:(lia)) as Y0. pose proof (yq_within k ltac:(lia)) as Yk. pose proof (yq_within (S k) ltac:(lia)) as Ys.
      assert (Y0k : yq 0 <= yq k).
      { clear IH Yk Ys Y0. induction k as [|j IHj]; [lra|]. pose proof (yq_lt j ltac:(lia)). specialize (IHj ltac:(lia)). lra. }
      assert (Yks : yq k <= yq (S k)) by (left; apply yq_lt; lia).
      rewrite <- (RInt_Chasles phi (yq 0) (yq k) (yq (S k))).
      + apply (is_RInt_Chasles (V := R_NormedModule) _ (xq 0) (xq k) (xq (S k))); [apply IH; lia | apply piece_integral; lia].
      + apply phi_integrable; lra.
      + apply phi_integrable; lra.
  Qed.

  (* the density phi(F x) F'(x) of the quadratic-spline flow carries exactly the base mass of the target interval *)
  Theorem quadratic_whole_change_of_variables :
    is_RInt (fun x => phi (QF minw minh bx uw uh x) * exp (QFlad minw minh bx uw uh x)) (b_left bx) (b_right bx)
            (RInt phi (b_bottom bx) (b_top bx)).
  Proof.
    pose proof (upto_integral K (le_n K)) as HI.
    assert (E0 : xq 0 = b_left bx) by (unfold xq; rewrite lk_0; lra).
    assert (EK : xq K = b_right bx) by (unfold xq, K; rewrite lk_K by exact HK; lra).
    assert (F0 : yq 0 = b_bottom bx) by (unfold yq; rewrite ck_0; lra).
    assert (FK : yq K = b_top bx) by (unfold yq, K; rewrite (ck_K minw minh uw uh HK Hlh Hw0 HwK HhK); lra).
    rewrite E0, EK, F0, FK in HI. exact HI.
  Qed.
End QIntegral.

(* Flow(PiecewiseQuadraticCDF, uniform on [0,1]): the base log-density is 0 on the unit interval *)
Lemma quadratic_cdf_flow_normalised (minw minh : R) (uw uh : list R) :
  uw <> [] -> length uh = S (length uw) \/ (length uh = (length uw - 1)%nat /\ (2 <= length uw)%nat) ->
  0 <= minw -> minw * INR (length uw) <= 1 -> 0 <= minh -> minh * INR (length uw) <= 1 ->
  is_RInt (fun x => exp (flow_log_prob Rops 0 (QFlad minw minh {| b_left := 0; b_right := 1; b_bottom := 0; b_top := 1 |} uw uh x))) 0 1 1.
Proof.
  intros HK Hlh Hw0 HwK Hh0 HhK. set (bx := {| b_left := 0; b_right := 1; b_bottom := 0; b_top := 1 |}).
  pose proof (quadratic_whole_change_of_variables minw minh bx uw uh HK Hlh Hw0 HwK Hh0 HhK ltac:(cbn; lra) ltac:(cbn; lra) (fun _ => 1)
                ltac:(intros y _; apply continuous_const)) as HI.
  cbn [b_left b_right b_bottom b_top bx] in HI.
  assert (E : RInt (fun _ : R => 1) 0 1 = 1) by (rewrite RInt_const; unfold scal; cbn; unfold mult; cbn; lra).
  rewrite E in HI.
  apply (is_RInt_ext (fun x => 1 * exp (QFlad minw minh bx uw uh x))); [|exact HI].
  intros x _. unfold flow_log_prob. cbn [o_add Rops]. rewrite Rplus_0_l. lra.
Qed.
