(* The unconstrained rational-quadratic spline (linear tails): identity outside [-B, B], the whole-spline bijection of
   [-B, B] inside, hence a strictly increasing map of the real line that takes every value. *)
From Coq Require Import Reals ZArith List Bool Arith Lia Lra.
From Coquelicot Require Import Coquelicot.
From NF Require Import Base.Ops Base.Rops Base.Result Gen.Utils Gen.SplineRQ Model.Utils Model.Vec Model.SplineRQ
  Proofs.SplineRQWhole.
Import ListNotations.
Open Scope R_scope.

Section Tails.
  Variables (c : @rq_cfg R) (B : R) (uw uh ud : list R).
  Hypothesis HB : 0 < B.
  Let bx : @box R := {| b_left := - B; b_right := B; b_bottom := - B; b_top := B |}.
  Let udp := rq_tail_constant Rops (min_derivative c) :: ud ++ [rq_tail_constant Rops (min_derivative c)].
  Hypothesis Hwf : rq_wellformed c bx uw uh udp.

  Definition U (x : R) : R := match rq_unconstrained Rops c false B uw uh ud x with Ok (y, _) => y | _ => 0 end.

  Lemma inside_iff x : rq_inside_tails Rops x B = true <-> - B <= x <= B.
  Proof.
    unfold rq_inside_tails. cbn [Rops o_leb o_neg]. rewrite andb_true_iff, !Rleb_true. tauto.
  Qed.

  Lemma U_inside x : - B <= x <= B -> U x = F c bx uw uh udp x.
  Proof.
    intros Hx. unfold U, rq_unconstrained. apply inside_iff in Hx. rewrite Hx. reflexivity.
  Qed.

  Lemma U_outside x : x < - B \/ B < x -> U x = x.
  Proof.
    intros Hx. unfold U, rq_unconstrained. destruct (rq_inside_tails Rops x B) eqn:E; [|reflexivity].
    apply inside_iff in E. lra.
  Qed.

  Lemma wf_parts : F c bx uw uh udp (- B) = - B /\ F c bx uw uh udp B = B /\
    (forall a b, - B <= a -> a < b -> b <= B -> F c bx uw uh udp a < F c bx uw uh udp b) /\
    (forall y, - B <= y <= B -> exists x, - B <= x <= B /\ F c bx uw uh udp x = y).
  Proof.
    destruct Hwf as [H1 [H2 [H3 [H4 [H5 [H6 [H7 [H8 [H9 [H10 H11]]]]]]]]]].
    pose proof (whole_end_points c bx uw uh udp H1 H2 H3 H4 H5 H6 H7 H8 H9 H10 H11) as [E1 E2].
    split; [exact E1|]. split; [exact E2|]. split.
    - intros a b. apply (whole_increasing c bx uw uh udp H1 H2 H3 H4 H5 H6 H7 H8 H9 H10 H11).
    - intros y Hy. destruct (whole_forward_of_inverse c bx uw uh udp H1 H2 H3 H4 H5 H6 H7 H8 H9 H10 H11 y Hy) as [x [l [_ [Hx [E _]]]]].
      exists x. split; assumption.
  Qed.

  (* continuous at the two tail bounds: the spline's end points are the identity's *)
  Theorem tails_meet_the_spline : U (- B) = - B /\ U B = B.
  Proof. destruct wf_parts as [E1 [E2 _]]. rewrite !U_inside by lra. split; assumption. Qed.

  Theorem unconstrained_increasing a b : a < b -> U a < U b.
  Proof.
    intros Hab. destruct wf_parts as [E1 [E2 [Inc _]]].
    assert (Hle : forall x, - B <= x <= B -> - B <= F c bx uw uh udp x <= B).
    { intros x [X1 X2]. split.
      - destruct (Rle_lt_or_eq_dec _ _ X1) as [L|Eq]; [|rewrite <- Eq; lra].
        assert (F c bx uw uh udp (- B) < F c bx uw uh udp x) by (apply Inc; lra). lra.
      - destruct (Rle_lt_or_eq_dec _ _ X2) as [L|Eq]; [|rewrite Eq; lra].
        assert (F c bx uw uh udp x < F c bx uw uh udp B) by (apply Inc; lra). lra. }
    destruct (Rlt_le_dec a (- B)) as [A1|A1]; destruct (Rlt_le_dec B b) as [B1|B1].
    - rewrite !U_outside by lra. lra.
    - rewrite (U_outside a) by lra. destruct (Rlt_le_dec b (- B)) as [B2|B2].
      + rewrite (U_outside b) by lra. lra.
      + rewrite (U_inside b) by lra. pose proof (Hle b ltac:(lra)). lra.
    - rewrite (U_outside b) by lra. destruct (Rlt_le_dec B a) as [A2|A2].
      + rewrite (U_outside a) by lra. lra.
      + rewrite (U_inside a) by lra. pose proof (Hle a ltac:(lra)). lra.
    - destruct (Rlt_le_dec B a) as [A2|A2]; [lra|]. destruct (Rlt_le_dec b (- B)) as [B2|B2]; [lra|].
      rewrite !U_inside by lra. apply Inc; lra.
  Qed.

  Theorem unconstrained_onto y : exists x, U x = y.
  Proof.
    destruct wf_parts as [_ [_ [_ Onto]]].
    destruct (Rlt_le_dec y (- B)) as [L|L]; [exists y; apply U_outside; lra|].
    destruct (Rlt_le_dec B y) as [G|G]; [exists y; apply U_outside; lra|].
    destruct (Onto y ltac:(lra)) as [x [Hx E]]. exists x. rewrite U_inside by exact Hx. exact E.
  Qed.
End Tails.
