(* The rational-quadratic bin (formulas generated from rational_quadratic.py) over the reals:
   derivative, log-det, end points, C1 matching, monotonicity, range, inverse. *)
From Coq Require Import Reals Lra Lia.
From Coquelicot Require Import Coquelicot.
From NF Require Import Base.Ops Base.Rops Gen.SplineRQ.
Open Scope R_scope.

(* pure algebra about the stable quadratic root 2c / (-b - sqrt(b^2 - 4ac)) under c <= 0 <= a + b + c *)
Lemma alg_disc a b c : c <= 0 -> 0 <= a + b + c -> 0 <= b * b - 4 * a * c.
Proof.
  intros Hc Hs. destruct (Rle_lt_dec 0 a) as [Ha|Ha].
  - assert (0 <= a * (- c)) by (apply Rmult_le_pos; lra). pose proof (Rle_0_sqr b) as Hb. unfold Rsqr in Hb. lra.
  - assert (H1 : 0 <= - (a + c)) by lra. assert (H2 : - (a + c) <= b) by lra.
    assert (H3 : (- (a + c)) * (- (a + c)) <= b * b) by (apply Rmult_le_compat; lra).
    pose proof (Rle_0_sqr (a - c)) as H4. unfold Rsqr in H4. lra.
Qed.

Lemma alg_q_neg a b c t : c <= 0 -> 0 <= a + b + c -> (c = 0 -> 0 < b) -> 0 <= t -> t * t = b * b - 4 * a * c ->
  - b - t < 0.
Proof.
  intros Hc Hs Hb0 Ht Htt. destruct (Rlt_le_dec 0 b) as [Hb|Hb]; [lra|].
  destruct (Req_dec c 0) as [E|N]; [specialize (Hb0 E); lra|].
  assert (Hc' : c < 0) by lra. assert (Ha : 0 < a) by lra.
  assert (H1 : 0 < a * (- c)) by (apply Rmult_lt_0_compat; lra).
  assert (H2 : (- b) * (- b) < t * t) by (rewrite Htt; lra).
  destruct (Rle_lt_dec t (- b)) as [L|G]; [|lra].
  assert (t * t <= (- b) * (- b)) by (apply Rmult_le_compat; lra). lra.
Qed.

Lemma alg_root_le_1 a b c t : c <= 0 -> 0 <= a + b + c -> 0 <= t -> t * t = b * b - 4 * a * c -> - b - 2 * c <= t.
Proof.
  intros Hc Hs Ht Htt. destruct (Rle_lt_dec (- b - 2 * c) 0) as [L|G]; [lra|].
  destruct (Rle_lt_dec (- b - 2 * c) t) as [L2|G2]; [exact L2|exfalso].
  assert (H1 : t * t <= (- b - 2 * c) * (- b - 2 * c)) by (apply Rmult_le_compat; lra).
  assert (H2 : 0 <= (- c) * (a + b + c)) by (apply Rmult_le_pos; lra).
  assert (H3 : (- b - 2 * c) * (- b - 2 * c) - (b * b - 4 * a * c) = - 4 * ((- c) * (a + b + c))) by ring.
  assert (H4 : t * t < (- b - 2 * c) * (- b - 2 * c)).
  { assert (t * t < t * (- b - 2 * c) \/ t = 0) as [X|X].
    { destruct (Req_dec t 0); [right; assumption | left; apply Rmult_lt_compat_l; lra]. }
    - assert (t * (- b - 2 * c) <= (- b - 2 * c) * (- b - 2 * c)) by (apply Rmult_le_compat_r; lra). lra.
    - subst t. assert (0 < (- b - 2 * c) * (- b - 2 * c)) by (apply Rmult_lt_0_compat; lra). lra. }
  lra.
Qed.

Section Bin.
  (* one bin: left knot (xk, yk), width w, height h, end derivatives d0 d1 *)
  Variables (xk w yk h d0 d1 : R).
  Hypothesis (Hw : 0 < w) (Hh : 0 < h) (Hd0 : 0 < d0) (Hd1 : 0 < d1).
  Let s := h / w.

  Definition fwd (x : R) : R := rq_fwd_ret0 Rops x xk w yk s d0 d1 h.
  Definition lad (x : R) : R := rq_fwd_ret1 Rops x xk w yk s d0 d1 h.
  Definition theta (x : R) : R := (x - xk) / w.
  Definition den (t : R) : R := s + (d0 + d1 - 2 * s) * (t * (1 - t)).
  Definition dnum (t : R) : R := s * s * (d1 * (t * t) + 2 * s * (t * (1 - t)) + d0 * ((1 - t) * (1 - t))).

  Lemma s_pos : 0 < s.
  Proof. unfold s. apply Rdiv_lt_0_compat; assumption. Qed.

  Lemma den_convex t : den t = s * (t * t + (1 - t) * (1 - t)) + (d0 + d1) * (t * (1 - t)).
  Proof. unfold den. ring. Qed.

  Lemma den_pos t : 0 <= t <= 1 -> 0 < den t.
  Proof.
    intros [H0 H1]. rewrite den_convex. pose proof s_pos as Hs.
    assert (A : 0 < t * t + (1 - t) * (1 - t)) by nra.
    assert (B : 0 <= t * (1 - t)) by nra.
    assert (C : 0 < s * (t * t + (1 - t) * (1 - t))) by (apply Rmult_lt_0_compat; assumption).
    assert (D : 0 <= (d0 + d1) * (t * (1 - t))) by (apply Rmult_le_pos; lra).
    lra.
  Qed.

  Lemma dnum_pos t : 0 <= t <= 1 -> 0 < dnum t.
  Proof.
    intros [H0 H1]. unfold dnum. pose proof s_pos as Hs.
    apply Rmult_lt_0_compat; [apply Rmult_lt_0_compat; assumption|].
    assert (A : 0 <= d1 * (t * t)) by (apply Rmult_le_pos; nra).
    assert (B : 0 <= 2 * s * (t * (1 - t))) by (apply Rmult_le_pos; nra).
    assert (C : 0 <= d0 * ((1 - t) * (1 - t))) by (apply Rmult_le_pos; nra).
    destruct (Rle_lt_dec t (1 / 2)).
    - assert (0 < d0 * ((1 - t) * (1 - t))) by (apply Rmult_lt_0_compat; nra). lra.
    - assert (0 < d1 * (t * t)) by (apply Rmult_lt_0_compat; nra). lra.
  Qed.

  Lemma theta_range x : xk <= x <= xk + w -> 0 <= theta x <= 1.
  Proof.
    intros [H0 H1]. unfold theta. split.
    - apply Rmult_le_pos; [lra | left; apply Rinv_0_lt_compat; exact Hw].
    - apply (Rmult_le_reg_r w); [exact Hw|]. unfold Rdiv. rewrite Rmult_assoc, Rinv_l by lra. lra.
  Qed.

  (* the generated output formula in closed form *)
  Lemma fwd_closed x :
    fwd x = yk + h * (s * (theta x * theta x) + d0 * (theta x * (1 - theta x))) / den (theta x).
  Proof.
    unfold fwd, rq_fwd_ret0, o_sq, den, theta. cbn [Rops o_add o_sub o_mul o_div o_ofZ]. 
    replace (IZR 1) with 1 by reflexivity. replace (IZR 2) with 2 by reflexivity. reflexivity.
  Qed.

  Lemma lad_closed x :
    lad x = ln (dnum (theta x)) - 2 * ln (den (theta x)).
  Proof.
    unfold lad, rq_fwd_ret1, o_sq, den, dnum, theta. cbn [Rops o_add o_sub o_mul o_div o_ofZ o_ln].
    replace (IZR 1) with 1 by reflexivity. replace (IZR 2) with 2 by reflexivity. reflexivity.
  Qed.

  (* end points of the bin *)
  Lemma fwd_left : fwd xk = yk.
  Proof.
    rewrite fwd_closed. unfold theta. replace ((xk - xk) / w) with 0 by (field; lra).
    assert (den 0 <> 0) by (pose proof (den_pos 0 ltac:(lra)); lra). field. exact H.
  Qed.

  Lemma fwd_right : fwd (xk + w) = yk + h.
  Proof.
    rewrite fwd_closed. unfold theta. replace ((xk + w - xk) / w) with 1 by (field; lra).
    assert (E : den 1 = s) by (unfold den; ring). rewrite E. pose proof s_pos. field. lra.
  Qed.

  (* derivative of the output formula = dnum / den^2, positive; the returned log-det is its logarithm *)
  Lemma fwd_derive x : xk <= x <= xk + w ->
    is_derive fwd x (dnum (theta x) / (den (theta x) * den (theta x))).
  Proof.
    intros Hx. pose proof (den_pos _ (theta_range x Hx)) as Hden.
    unfold fwd, rq_fwd_ret0, o_sq. cbn [Rops o_add o_sub o_mul o_div o_ofZ].
    replace (IZR 1) with 1 by reflexivity. replace (IZR 2) with 2 by reflexivity.
    unfold den, theta, s in Hden |- *.
    auto_derive.
    - unfold Rminus, Rdiv in Hden |- *. lra.
    - unfold dnum, s. field. split; [lra|].
      set (D := h / w + (d0 + d1 - 2 * (h / w)) * ((x - xk) / w * (1 - (x - xk) / w))) in Hden.
      replace (h * (w * w) + ((d0 + d1) * w - 2 * h) * ((x - xk) * (w - (x - xk)))) with (w * w * w * D)
        by (unfold D; field; lra).
      apply Rgt_not_eq. apply Rmult_lt_0_compat; [|exact Hden].
      apply Rmult_lt_0_compat; [apply Rmult_lt_0_compat|]; exact Hw.
  Qed.

  Definition deriv (x : R) : R := dnum (theta x) / (den (theta x) * den (theta x)).

  Lemma deriv_pos x : xk <= x <= xk + w -> 0 < deriv x.
  Proof.
    intros Hx. pose proof (theta_range x Hx) as Ht. unfold deriv.
    apply Rdiv_lt_0_compat; [apply dnum_pos; exact Ht|].
    apply Rmult_lt_0_compat; apply den_pos; exact Ht.
  Qed.

  (* the log-abs-det returned next to the output is the logarithm of the derivative *)
  Lemma lad_is_ln_deriv x : xk <= x <= xk + w -> lad x = ln (deriv x).
  Proof.
    intros Hx. pose proof (theta_range x Hx) as Ht. rewrite lad_closed. unfold deriv.
    pose proof (den_pos _ Ht) as Hd. pose proof (dnum_pos _ Ht) as Hn.
    unfold Rdiv. rewrite ln_mult; [|exact Hn|apply Rinv_0_lt_compat; apply Rmult_lt_0_compat; exact Hd].
    rewrite ln_Rinv by (apply Rmult_lt_0_compat; exact Hd). rewrite ln_mult by exact Hd. ring.
  Qed.

  (* C1 matching data: the derivative at the two ends of the bin is d0 and d1 *)
  Lemma deriv_left : deriv xk = d0.
  Proof.
    unfold deriv, theta. replace ((xk - xk) / w) with 0 by (field; lra).
    unfold dnum, den. pose proof s_pos. field. lra.
  Qed.
  Lemma deriv_right : deriv (xk + w) = d1.
  Proof.
    unfold deriv, theta. replace ((xk + w - xk) / w) with 1 by (field; lra).
    unfold dnum, den. pose proof s_pos. field. lra.
  Qed.

  (* strictly increasing on the bin *)
  Lemma fwd_increasing a b : xk <= a -> a < b -> b <= xk + w -> fwd a < fwd b.
  Proof.
    intros Ha Hab Hb.
    destruct (MVT_gen fwd a b deriv) as [c [Hc E]].
    - intros x Hx. rewrite Rmin_left, Rmax_right in Hx by lra. apply fwd_derive. lra.
    - intros x Hx. rewrite Rmin_left, Rmax_right in Hx by lra.
      apply derivable_continuous_pt. apply ex_derive_Reals_0. eexists. apply fwd_derive. lra.
    - rewrite Rmin_left, Rmax_right in Hc by lra.
      assert (0 < deriv c) by (apply deriv_pos; lra).
      assert (0 < deriv c * (b - a)) by (apply Rmult_lt_0_compat; lra). lra.
  Qed.

  (* the bin maps [xk, xk + w] into [yk, yk + h] *)
  Lemma fwd_range x : xk <= x <= xk + w -> yk <= fwd x <= yk + h.
  Proof.
    intros [H0 H1]. split.
    - destruct (Req_dec x xk) as [->|N]; [rewrite fwd_left; lra|].
      rewrite <- fwd_left. left. apply fwd_increasing; lra.
    - destruct (Req_dec x (xk + w)) as [->|N]; [rewrite fwd_right; lra|].
      rewrite <- fwd_right. left. apply fwd_increasing; lra.
  Qed.

  (* ---------------- inverse ---------------- *)
  Definition inv (y : R) : R := rq_inv_ret0 Rops y xk w yk s d0 d1 h.
  Definition inv_lad (y : R) : R := rq_inv_ret1 Rops y xk w yk s d0 d1 h.
  Definition qa (y : R) : R := (y - yk) * (d0 + d1 - 2 * s) + h * (s - d0).
  Definition qb (y : R) : R := h * d0 - (y - yk) * (d0 + d1 - 2 * s).
  Definition qc (y : R) : R := - s * (y - yk).
  Definition disc (y : R) : R := qb y * qb y - 4 * qa y * qc y.
  Definition root (y : R) : R := 2 * qc y / (- qb y - sqrt (disc y)).

  Lemma inv_closed y : inv y = root y * w + xk.
  Proof.
    unfold inv, rq_inv_ret0, o_sq, root, disc, qa, qb, qc. cbn [Rops o_add o_sub o_mul o_div o_ofZ o_neg o_sqrt].
    replace (IZR 2) with 2 by reflexivity. replace (IZR 4) with 4 by reflexivity. reflexivity.
  Qed.

  Lemma inv_lad_closed y : inv_lad y = - (ln (dnum (root y)) - 2 * ln (den (root y))).
  Proof.
    unfold inv_lad, rq_inv_ret1, o_sq, root, disc, qa, qb, qc, dnum, den.
    cbn [Rops o_add o_sub o_mul o_div o_ofZ o_neg o_sqrt o_ln].
    replace (IZR 1) with 1 by reflexivity. replace (IZR 2) with 2 by reflexivity. replace (IZR 4) with 4 by reflexivity.
    reflexivity.
  Qed.

  Section Root.
    Variable y : R.
    Hypothesis Hy : yk <= y <= yk + h.
    Let u := y - yk.
    Let a := qa y. Let b := qb y. Let c := qc y.

    Lemma c_nonpos : c <= 0.
    Proof. unfold c, qc. pose proof s_pos. assert (0 <= s * (y - yk)) by (apply Rmult_le_pos; lra). lra. Qed.
    Lemma abc_nonneg : 0 <= a + b + c.
    Proof.
      unfold a, b, c, qa, qb, qc. pose proof s_pos.
      replace ((y - yk) * (d0 + d1 - 2 * s) + h * (s - d0) + (h * d0 - (y - yk) * (d0 + d1 - 2 * s)) + - s * (y - yk))
        with (s * (yk + h - y)) by ring.
      apply Rmult_le_pos; lra.
    Qed.

    (* the code's `assert (discriminant >= 0).all()` never fires *)
    Lemma disc_nonneg : 0 <= disc y.
    Proof. unfold disc. fold a b c. apply alg_disc; [apply c_nonpos | apply abc_nonneg]. Qed.

    Lemma b_pos_when_c_zero : c = 0 -> 0 < b.
    Proof.
      unfold c, qc, b, qb. intros E. pose proof s_pos as Hs.
      assert (y - yk = 0).
      { destruct (Req_dec (y - yk) 0) as [Z|NZ]; [exact Z|exfalso].
        assert (s * (y - yk) <> 0) by (apply Rmult_integral_contrapositive_currified; lra). lra. }
      rewrite H. assert (0 < h * d0) by (apply Rmult_lt_0_compat; assumption). lra.
    Qed.

    Lemma q_neg : - b - sqrt (disc y) < 0.
    Proof.
      pose proof disc_nonneg as Hd.
      apply (alg_q_neg a b c); [apply c_nonpos | apply abc_nonneg | apply b_pos_when_c_zero | apply sqrt_pos |].
      rewrite sqrt_sqrt by exact Hd. reflexivity.
    Qed.

    Lemma root_range : 0 <= root y <= 1.
    Proof.
      pose proof q_neg as Hq. pose proof disc_nonneg as Hd. pose proof (sqrt_pos (disc y)) as Ht.
      pose proof (sqrt_sqrt _ Hd) as Hs. pose proof c_nonpos as Hc. pose proof abc_nonneg as Habc.
      assert (Ht2 : sqrt (disc y) * sqrt (disc y) = b * b - 4 * a * c) by (rewrite Hs; reflexivity).
      pose proof (alg_root_le_1 a b c _ Hc Habc Ht Ht2) as Hle.
      unfold root. fold b c. set (t := sqrt (disc y)) in *. set (q := - b - t) in *.
      assert (Hiq : / q < 0) by (apply Rinv_lt_0_compat; exact Hq).
      split.
      - unfold Rdiv. replace (2 * c * / q) with ((- (2 * c)) * (- / q)) by ring. apply Rmult_le_pos; lra.
      - apply (Rmult_le_reg_r (- q)); [lra|]. unfold Rdiv.
        replace (2 * c * / q * - q) with (- (2 * c) * (q * / q)) by ring. rewrite Rinv_r by lra. unfold q. lra.
    Qed.

    Lemma root_is_root : a * (root y * root y) + b * root y + c = 0.
    Proof.
      pose proof q_neg as Hq. pose proof disc_nonneg as Hd. pose proof (sqrt_sqrt _ Hd) as Hs.
      unfold root. fold b c. set (t := sqrt (disc y)) in *.
      assert (Ht2 : t * t = b * b - 4 * a * c) by (rewrite Hs; unfold disc; reflexivity).
      assert (Hq0 : - b - t <> 0) by lra.
      apply (Rmult_eq_reg_r ((- b - t) * (- b - t))); [|nra].
      rewrite Rmult_0_l. unfold Rdiv.
      replace ((a * (2 * c * / (- b - t) * (2 * c * / (- b - t))) + b * (2 * c * / (- b - t)) + c) * ((- b - t) * (- b - t)))
        with (c * (4 * a * c + 2 * b * (- b - t) + (- b - t) * (- b - t))) by (field; exact Hq0).
      replace (4 * a * c + 2 * b * (- b - t) + (- b - t) * (- b - t)) with (4 * a * c - b * b + t * t) by ring.
      rewrite Ht2. ring.
    Qed.

    (* forward of the inverse gives y back *)
    Lemma fwd_inv : fwd (inv y) = y.
    Proof.
      rewrite inv_closed, fwd_closed. pose proof root_range as Hr. pose proof root_is_root as Hz.
      assert (Et : theta (root y * w + xk) = root y) by (unfold theta; field; lra).
      rewrite Et. set (r := root y) in *. pose proof (den_pos r Hr) as Hden.
      assert (E : h * (s * (r * r) + d0 * (r * (1 - r))) = (y - yk) * den r).
      { unfold den. unfold a, b, c, qa, qb, qc in Hz. nra. }
      rewrite E. field. lra.
    Qed.

    Lemma inv_in_bin : xk <= inv y <= xk + w.
    Proof. rewrite inv_closed. pose proof root_range. nra. Qed.

    (* the inverse's log-abs-det is minus the forward one at the pre-image *)
    Lemma inv_lad_neg : inv_lad y = - lad (inv y).
    Proof.
      rewrite inv_lad_closed, lad_closed, inv_closed.
      assert (Et : theta (root y * w + xk) = root y) by (unfold theta; field; lra).
      rewrite Et. reflexivity.
    Qed.
  End Root.

  (* inverse of forward gives x back *)
  Lemma inv_fwd x : xk <= x <= xk + w -> inv (fwd x) = x.
  Proof.
    intros Hx. pose proof (fwd_range x Hx) as Hy. pose proof (fwd_inv (fwd x) Hy) as E.
    pose proof (inv_in_bin (fwd x) Hy) as Hi.
    destruct (Rtotal_order (inv (fwd x)) x) as [L|[Eq|G]]; [|exact Eq|].
    - pose proof (fwd_increasing (inv (fwd x)) x ltac:(lra) L ltac:(lra)). lra.
    - pose proof (fwd_increasing x (inv (fwd x)) ltac:(lra) G ltac:(lra)). lra.
  Qed.
End Bin.
