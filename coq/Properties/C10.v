(* C10 -- weight caching in linear transforms is transparent over every history.
   Statements only; axiom-free.  [run] are the observations of the cached transform
   (which parameter version and dtype each output and log-det was built from, or an
   error), [run_ref] those of recomputing from the current parameters. *)
From Coq Require Import List Bool Arith.
From NF Require Import Gen.LinearCache Model.Cache Proofs.CacheP.
Import ListNotations.

(* FULL statement (kept visible):
     forall ops u, admissible (init_using u) ops = true ->
                   run (init_using u) ops = run_ref (init_using u) ops.
   It is FALSE of the faithful model -- see C10_double_backward_refuted (a recorded
   finding).  What is proved is the statement for every history in which a backward
   pass is only run where the cache is not consulted: *)
Theorem C10_cache_transparent_partial : forall (ops : list op) (s : st),
  Inv s -> admissible s ops = true -> bw_safe_all s ops = true -> run s ops = run_ref s ops.
Proof. exact cache_transparent_partial. Qed.
Print Assumptions C10_cache_transparent_partial.

(* in particular: every history over {train, eval, use_cache, forward, inverse,
   optimiser step in training mode, load_state_dict, dtype change}, from a fresh
   transform constructed with or without caching *)
Theorem C10_cache_transparent_no_backward : forall (ops : list op) (u : bool),
  admissible (init_using u) ops = true -> forallb no_backward ops = true ->
  run (init_using u) ops = run_ref (init_using u) ops.
Proof. exact cache_transparent_no_backward. Qed.
Print Assumptions C10_cache_transparent_no_backward.

(* the invariant behind it holds in every reachable state *)
Theorem C10_invariant_preserved : forall (s : st) (o : op),
  Inv s -> (match o with Update => training s = true | _ => True end) -> Inv (fst (step s o)).
Proof. exact step_inv. Qed.
Print Assumptions C10_invariant_preserved.

(* repeated back-propagation through a cached weight fails where the uncached transform works *)
Theorem C10_double_backward_refuted :
  exists ops, admissible (init_using true) ops = true /\
              run (init_using true) ops <> run_ref (init_using true) ops.
Proof. exact cache_double_backward_refuted. Qed.
Print Assumptions C10_double_backward_refuted.

Example C10_hypotheses_satisfiable :
  let ops := [Eval; Forward; Train; Update; Eval; Inverse; LoadState; Forward; ToDtype F64; Forward; UseCache false; Forward] in
  admissible (init_using true) ops = true /\ forallb no_backward ops = true /\
  run (init_using true) ops = run_ref (init_using true) ops /\
  nth 7 (run (init_using true) ops) ONone = OOut 2 F32 2 F32.
Proof. vm_compute. repeat split. Qed.
