(* C18 -- the distribution interface keeps its documented shape and argument contract.
   Statements only; axiom-free. *)
From Coq Require Import ZArith List Bool Arith Lia.
From NF Require Import Base.Result Base.PyVal Gen.Typechecks Gen.DistBase Model.Utils Model.Shapes Proofs.ShapesP.
Import ListNotations.

(* log_prob returns one value per input row (and only accepts the event shape) *)
Theorem C18_log_prob_one_value_per_row : forall ev b rest ctx s,
  log_prob_shape ev (b :: rest) ctx = Ok s -> s = [b] /\ rest = ev.
Proof. exact log_prob_one_per_row. Qed.
Print Assumptions C18_log_prob_one_value_per_row.

Theorem C18_log_prob_accepts_matching_rows : forall ev b ctx,
  (match ctx with Some (k :: _) => k = b | Some [] => False | None => True end) ->
  log_prob_shape ev (b :: ev) ctx = Ok [b].
Proof. exact log_prob_ok. Qed.
Print Assumptions C18_log_prob_accepts_matching_rows.

(* a context whose row count differs from the inputs is a ValueError *)
Theorem C18_context_row_mismatch_is_ValueError : forall ev b rest k r,
  b <> k -> log_prob_shape ev (b :: rest) (Some (k :: r)) = ValueErr.
Proof. exact log_prob_context_mismatch. Qed.
Print Assumptions C18_context_row_mismatch_is_ValueError.

(* sample(n) gives [n; event]; sample(n, context) gives [rows; n; event] *)
Theorem C18_sample_shapes : forall ev n, 1 <= n ->
  sample_shape ev (PInt (Z.of_nat n)) None None = Ok (n :: ev) /\
  forall k r, sample_shape ev (PInt (Z.of_nat n)) (Some (k :: r)) None = Ok (k :: n :: ev).
Proof. intros ev n Hn. split; [|intros k r]; rewrite sample_unbatched by exact Hn; reflexivity. Qed.
Print Assumptions C18_sample_shapes.

(* generating the samples in batches of ANY size (dividing n or not) does not change the shape *)
Theorem C18_batching_keeps_shape : forall ev n bs ctx,
  1 <= n -> 1 <= bs -> (match ctx with Some [] => False | _ => True end) ->
  sample_shape ev (PInt (Z.of_nat n)) ctx (Some (PInt (Z.of_nat bs)))
  = sample_shape ev (PInt (Z.of_nat n)) ctx None.
Proof. exact batched_sampling_keeps_shape. Qed.
Print Assumptions C18_batching_keeps_shape.

(* a non-positive or non-integer sample count is a TypeError (Python's True is the integer 1
   and is accepted: see C20_is_int_accepts_bool) *)
Theorem C18_bad_count_is_TypeError : forall ev ctx bs,
  (forall z, (z <= 0)%Z -> sample_shape ev (PInt z) ctx bs = TypeErr) /\
  sample_shape ev PFloat ctx bs = TypeErr /\ sample_shape ev PNone ctx bs = TypeErr /\
  sample_shape ev PStr ctx bs = TypeErr /\ sample_shape ev (PBool false) ctx bs = TypeErr.
Proof. exact non_positive_or_non_int_rejected. Qed.
Print Assumptions C18_bad_count_is_TypeError.

(* sample_and_log_prob returns matching shapes *)
Theorem C18_sample_and_log_prob_shapes : forall ev n, 1 <= n ->
  sample_and_log_prob_shape ev (PInt (Z.of_nat n)) None = Ok (n :: ev, [n]) /\
  forall k r, sample_and_log_prob_shape ev (PInt (Z.of_nat n)) (Some (k :: r)) = Ok (k :: n :: ev, [k; n]).
Proof. exact sample_and_log_prob_shapes. Qed.
Print Assumptions C18_sample_and_log_prob_shapes.

(* a flow's merge / invert / split pipeline returns the base distribution's sample shape *)
Theorem C18_flow_sample_shape : forall ev n ctx,
  1 <= n -> (match ctx with Some [] => False | _ => True end) ->
  flow_sample_shape ev n ctx = base_sample_shape ev n ctx.
Proof. exact flow_sample_shape_eq. Qed.
Print Assumptions C18_flow_sample_shape.

Example C18_example :
  sample_shape [2; 3] (PInt 5) (Some [4; 7]) (Some (PInt 2)) = Ok [4; 5; 2; 3]
  /\ sample_shape [2] (PInt 5) None (Some (PInt 3)) = Ok [5; 2]
  /\ sample_shape [2] (PInt 0) None None = TypeErr.
Proof. vm_compute. repeat split. Qed.
