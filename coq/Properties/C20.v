(* C20 -- tensor and mask utilities obey their algebraic specifications.
   Statements only; each is closed by [exact] of a lemma proved in Proofs/. *)
From Coq Require Import Reals ZArith List Bool Arith Lia Sorted.
From NF Require Import Base.Ops Base.Rops Base.Result Base.PyVal Gen.Typechecks Gen.Utils Model.Utils
  Proofs.UtilsP Proofs.UtilsR.
Import ListNotations.
Local Open Scope nat_scope.

(* tiling places the n copies of each element consecutively *)
Theorem C20_tile_consecutive : forall (A : Type) (d : A) (x : list A) (n i j : nat),
  j < n -> nth (i * n + j) (tile_data d x n) d = nth i x d.
Proof. exact @tile_index. Qed.
Print Assumptions C20_tile_consecutive.

Theorem C20_tile_is_elementwise_repeat : forall (A : Type) (d : A) (x : list A) (n : nat),
  tile_data d x n = flat_map (fun a => repeat a n) x.
Proof. exact @tile_data_spec. Qed.
Print Assumptions C20_tile_is_elementwise_repeat.

(* row repetition: output row i*n+j is input row i *)
Theorem C20_repeat_rows_consecutive : forall (A : Type) (rowlen rows n : nat) (l : list A) (i j : nat) (d : list A),
  length l = rowlen * rows -> j < n ->
  nth (i * n + j) (chunks rowlen (rows * n) (repeat_rows_data rowlen rows n l)) d
  = nth i (chunks rowlen rows l) d.
Proof. exact @repeat_rows_row_index. Qed.
Print Assumptions C20_repeat_rows_consecutive.

(* merging and splitting the leading dimensions are mutually inverse (the second
   disjunct is the argument check, which never fires for k >= 1) *)
Theorem C20_split_after_merge : forall (A : Type) (x : tensor A) (k : nat),
  0 < k <= length (shape x) ->
  rbind (merge_leading_dims x (PInt (Z.of_nat k)))
        (fun y => split_leading_dim y (map Z.of_nat (firstn k (shape x)))) = Ok x
  \/ tc_is_positive_int (PInt (Z.of_nat k)) = false.
Proof. exact @split_merge. Qed.
Print Assumptions C20_split_after_merge.

Theorem C20_merge_after_split : forall (A : Type) (x : tensor A) (s : list nat) (s0 : nat) (rest : list nat),
  shape x = s0 :: rest -> prod s = s0 -> s <> [] ->
  rbind (split_leading_dim x (map Z.of_nat s))
        (fun y => merge_leading_dims y (PInt (Z.of_nat (length s)))) = Ok x
  \/ tc_is_positive_int (PInt (Z.of_nat (length s))) = false.
Proof. exact @merge_split. Qed.
Print Assumptions C20_merge_after_split.

Theorem C20_positive_int_check_accepts_positive : forall z : Z, tc_is_positive_int (PInt z) = true <-> (0 < z)%Z.
Proof. exact tc_is_positive_int_spec. Qed.
Print Assumptions C20_positive_int_check_accepts_positive.

(* the bin search returns the half-open bin containing x, the last bin closed *)
Theorem C20_searchsorted_bin : forall (locs : list R) (x : R) (K : nat),
  length locs = S K -> 0 < K -> StronglySorted Rlt locs ->
  (nth 0 locs 0 <= x <= nth K locs 0)%R ->
  exists k : nat, searchsorted Rops locs x = Z.of_nat k /\ k < K /\
    (nth k locs 0 <= x)%R /\ ((x < nth (S k) locs 0)%R \/ S k = K).
Proof. exact searchsorted_spec. Qed.
Print Assumptions C20_searchsorted_bin.

(* ... and leaves its argument alone *)
Theorem C20_searchsorted_does_not_modify_argument : forall locs : list R, searchsorted_locs Rops locs = locs.
Proof. exact searchsorted_pure. Qed.
Print Assumptions C20_searchsorted_does_not_modify_argument.

Theorem C20_cbrt_cubes_back : forall x : R, (cbrt Rops x * cbrt Rops x * cbrt Rops x = x)%R.
Proof. exact cbrt_cube. Qed.
Print Assumptions C20_cbrt_cubes_back.

Theorem C20_temperature : forall m b : R,
  (0 < m)%R -> (0 < b < 1)%R -> (get_temperature Rops m b < 1)%R ->
  o_sigmoid Rops (get_temperature Rops m b * m)%R = b.
Proof. exact temperature_spec. Qed.
Print Assumptions C20_temperature.

(* masks: pattern and number of ones *)
Theorem C20_alternating_mask : forall (features : nat) (even : bool),
  (forall i, i < features -> nth i (alternating_mask features even) false = if even then Nat.even i else Nat.odd i)
  /\ count_true (alternating_mask features even) = if even then (features + 1) / 2 else features / 2.
Proof. intros; split; [intros; apply alternating_mask_nth; assumption | apply alternating_mask_count]. Qed.
Print Assumptions C20_alternating_mask.

Theorem C20_mid_split_mask : forall features : nat,
  (forall i, i < features -> nth i (mid_split_mask features) false = Nat.ltb i ((features + 1) / 2))
  /\ count_true (mid_split_mask features) = (features + 1) / 2.
Proof.
  intros; split; [intros; rewrite <- midpoint_ceil; apply mid_split_mask_nth; assumption
                 | rewrite <- midpoint_ceil; apply mid_split_mask_count].
Qed.
Print Assumptions C20_mid_split_mask.

Theorem C20_random_mask_count : forall (features : nat) (indices : list nat),
  NoDup indices -> Forall (fun i => i < features) indices ->
  count_true (random_mask features indices) = length indices.
Proof. exact random_mask_count. Qed.
Print Assumptions C20_random_mask_count.

(* type predicates *)
Theorem C20_is_power_of_two : forall n : Z,
  tc_is_power_of_two (PInt n) = true <-> exists k, (0 <= k)%Z /\ n = (2 ^ k)%Z.
Proof. exact tc_is_power_of_two_spec. Qed.
Print Assumptions C20_is_power_of_two.

Theorem C20_non_ints_rejected : forall v : pyval,
  isinstance_int v = false ->
  tc_is_positive_int v = false /\ tc_is_nonnegative_int v = false /\ tc_is_power_of_two v = false.
Proof. exact tc_rejects_non_int. Qed.
Print Assumptions C20_non_ints_rejected.

(* Python's bool is an int: is_int(True) holds (documented, not a defect) *)
Theorem C20_is_int_accepts_bool : forall b : bool, tc_is_int (PBool b) = true.
Proof. exact tc_is_int_accepts_bool. Qed.
Print Assumptions C20_is_int_accepts_bool.

(* non-vacuity: the hypotheses of the bin-search theorem are satisfiable *)
Example C20_searchsorted_hyps_satisfiable :
  StronglySorted Rlt [0; 1; 2]%R /\ (nth 0 [0; 1; 2] 0 <= 2 <= nth 2 [0; 1; 2] 0)%R.
Proof.
  split; [repeat constructor; simpl; Lra.lra | simpl; Lra.lra].
Qed.

(* the log-abs-det helper hands back torch.slogdet's log-magnitude unchanged (it never forms the determinant, which leaves the
   floating-point range long before its logarithm does); torch.slogdet's own contract is trusted, see the trusted base *)
Theorem C20_logabsdet_is_the_log_magnitude_of_slogdet : utils_logabsdet_is_slogdet = true.
Proof. reflexivity. Qed.
Print Assumptions C20_logabsdet_is_the_log_magnitude_of_slogdet.
