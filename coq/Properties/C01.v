(* C01 -- forward log-abs-det equals log|det Jacobian| of the map actually computed.
   Statements only (real arithmetic).  Scalar formulas are the ones regenerated from the source;
   determinants are mathcomp determinants of matrices over R. *)
From Coq Require Import Reals List.
From Coquelicot Require Import Coquelicot.
From mathcomp Require Import all_ssreflect all_fingroup all_algebra.
From NF Require Import Base.Ops Base.Rops Base.Rstruct Gen.Nonlin Gen.SplineRQ Gen.SplineLinear Gen.SplineQuadratic
  Gen.SplineCubic Gen.Norm Proofs.SplineRQP Proofs.SplineLQP Proofs.NonlinP Proofs.C01Extra Proofs.DetP.
Set Implicit Arguments. Unset Strict Implicit. Unset Printing Implicit Defensive.
Local Open Scope R_scope.

(* ---- elementwise kernels: the returned log-det is the logarithm of the derivative of the returned output ---- *)
Theorem C01_rational_quadratic_bin : forall xk w yk h d0 d1 : R, 0 < w -> 0 < h -> 0 < d0 -> 0 < d1 ->
  forall x, xk <= x <= xk + w ->
    is_derive (fwd xk w yk h d0 d1) x (deriv xk w h d0 d1 x) /\ 0 < deriv xk w h d0 d1 x /\
    lad xk w yk h d0 d1 x = ln (deriv xk w h d0 d1 x).
Proof.
  move=> xk w yk h d0 d1 Hw Hh H0 H1 x Hx. split; [exact: fwd_derive | split; [exact: deriv_pos | exact: lad_is_ln_deriv]].
Qed.
Print Assumptions C01_rational_quadratic_bin.

Theorem C01_linear_bin : forall K k p c x : R, 0 < K -> 0 < p ->
  is_derive (lin_raw K k p c) x (K * p) /\ lin_fwd_logabsdet Rops x K k p c = ln (K * p).
Proof. move=> K k p c x HK Hp. split; [exact: lin_raw_derive | exact: lin_lad_is_ln_slope]. Qed.
Print Assumptions C01_linear_bin.

Theorem C01_quadratic_bin : forall l w c0 hl hr x : R, 0 < w -> 0 < hl -> 0 < hr -> l <= x <= l + w ->
  is_derive (q_raw l w c0 hl hr) x (q_slope l w hl hr x) /\ 0 < q_slope l w hl hr x /\
  quad_fwd_logabsdet Rops x l w c0 hl hr (qa l w c0 hl hr) (qb l w c0 hl hr) (qc l w c0 hl hr) = ln (q_slope l w hl hr x).
Proof.
  move=> l w c0 hl hr x Hw Hl Hr Hx. split; [exact: q_raw_derive | split; [exact: q_slope_pos | exact: q_lad_is_ln_slope]].
Qed.
Print Assumptions C01_quadratic_bin.

(* non-default spline boxes: the de-normalisation step adds exactly ln((top-bottom)/(right-left)),
   which is the factor by which the derivative of the un-normalised map exceeds the normalised one *)
Theorem C01_box_term : forall (g : R -> R) (l r b t x d : R),
  l < r -> b < t -> 0 < d -> is_derive g ((x - l) / (r - l)) d ->
  is_derive (fun v => g ((v - l) / (r - l)) * (t - b) + b) x (d * (t - b) / (r - l)) /\
  0 < d * (t - b) / (r - l) /\ ln d + ln (t - b) - ln (r - l) = ln (d * (t - b) / (r - l)).
Proof. exact: box_derivative. Qed.
Print Assumptions C01_box_term.

Theorem C01_splines_add_box_term : forall y ld l r b t : R,
  lin_fwd_denormalise_logabsdet Rops y ld l r b t = ld + ln (t - b) - ln (r - l) /\
  quad_fwd_denormalise_logabsdet Rops y ld l r b t = ld + ln (t - b) - ln (r - l) /\
  cub_fwd_denormalise_logabsdet Rops y ld l r b t = ld + ln (t - b) - ln (r - l) /\
  lin_fwd_denormalise_outputs Rops y ld l r b t = y * (t - b) + b /\
  quad_fwd_denormalise_outputs Rops y ld l r b t = y * (t - b) + b /\
  cub_fwd_denormalise_outputs Rops y ld l r b t = y * (t - b) + b /\
  lin_fwd_normalise_inputs Rops y l r b t = (y - l) / (r - l) /\
  quad_fwd_normalise_inputs Rops y l r b t = (y - l) / (r - l) /\
  cub_fwd_normalise_inputs Rops y l r b t = (y - l) / (r - l).
Proof. exact: denormalise_adds_box_term. Qed.
Print Assumptions C01_splines_add_box_term.

Theorem C01_exp : forall x, is_derive (exp_fwd_ret0 Rops) x (exp x) /\ exp_fwd_ret1 Rops x = ln (exp x).
Proof. exact: exp_fwd_derive. Qed.
Theorem C01_tanh : forall x,
  is_derive (tanh_fwd_ret0 Rops) x (1 - tanh x * tanh x) /\ 0 < 1 - tanh x * tanh x /\
  tanh_fwd_ret1 Rops x = ln (1 - tanh x * tanh x).
Proof. exact: tanh_fwd_derive. Qed.
Theorem C01_sigmoid : forall T eps x, 0 < T ->
  is_derive (fun v => sigm_fwd_ret0 Rops v eps T) x (T * (sig (T * x) * (1 - sig (T * x)))) /\
  0 < T * (sig (T * x) * (1 - sig (T * x))) /\
  sigm_fwd_ret1 Rops x eps T = ln (T * (sig (T * x) * (1 - sig (T * x)))).
Proof. exact: sigmoid_fwd_derive. Qed.
Theorem C01_cauchy : forall x,
  is_derive (cauchy_fwd_ret0 Rops) x (/ PI * / (1 + x * x)) /\ 0 < / PI * / (1 + x * x) /\
  cauchy_fwd_ret1 Rops x = ln (/ PI * / (1 + x * x)).
Proof. exact: cauchy_fwd_derive. Qed.
Theorem C01_leaky_relu : forall slope x, 0 < slope -> x <> 0 ->
  let f := fun v => if Rltb v 0 then slope * v else v in
  let d := if Rltb x 0 then slope else 1 in
  is_derive f x d /\ 0 < d /\ lrelu_fwd_lad Rops (if Rltb x 0 then 1 else 0) (ln slope) = ln d.
Proof. exact: lrelu_derive. Qed.
Theorem C01_gated_linear_unit_element : forall x c,
  is_derive (fun v => glu_fwd_ret0 Rops v c) x (sig c) /\ 0 < sig c /\ glu_fwd_ret1 Rops x c = ln (sig c) /\
  glu_inv_ret0 Rops (glu_fwd_ret0 Rops x c) c = x.
Proof. exact: glu_derive. Qed.
Theorem C01_batchnorm_element : forall w bias eps mean var x : R, 0 < w -> 0 < var + eps ->
  is_derive (fun v => bn_forward_out Rops w bias eps v mean var) x (w / sqrt (var + eps)) /\
  0 < w / sqrt (var + eps) /\ bn_forward_lad Rops w bias eps x mean var = ln (w / sqrt (var + eps)).
Proof. exact: batchnorm_derive. Qed.
Theorem C01_actnorm_element : forall log_scale shift x : R,
  is_derive (fun v => an_forward_out Rops (an_scale Rops log_scale) shift v) x (exp log_scale) /\
  ln (exp log_scale) = log_scale /\
  an_inverse_out Rops (an_scale Rops log_scale) shift (an_forward_out Rops (an_scale Rops log_scale) shift x) = x.
Proof. exact: actnorm_derive. Qed.
Theorem C01_affine_kernel : forall a b x : R, 0 < a ->
  is_derive (fun v : R => v * a + b) x a /\ (x * a + b - b) / a = x.
Proof. exact: affine_derive. Qed.
Print Assumptions C01_exp. Print Assumptions C01_tanh. Print Assumptions C01_sigmoid. Print Assumptions C01_cauchy.
Print Assumptions C01_leaky_relu. Print Assumptions C01_gated_linear_unit_element. Print Assumptions C01_batchnorm_element.
Print Assumptions C01_actnorm_element. Print Assumptions C01_affine_kernel.

(* ---- aggregation: from per-element derivatives to log |det Jacobian| ---- *)
Local Open Scope ring_scope.
(* A Jacobian that is triangular (elementwise maps: diagonal; masked autoregressive transforms: lower
   triangular, by C06; coupling layers: triangular after the mask's permutation, by C07) with positive
   diagonal entries has log|det| = the sum over features of the logs of the diagonal entries - which is
   what summing the per-element log-dets over all non-batch dimensions computes. *)
Theorem C01_triangular_jacobian : forall n (J : 'M[R]_n),
  ((forall i j : 'I_n, (i < j)%N -> J i j = 0) \/ (forall i j : 'I_n, (j < i)%N -> J i j = 0)) ->
  (forall i, Rlt 0%R (J i i)) ->
  Rlt 0%R (\det J) /\ ln (Rabs (\det J)) = \sum_(i < n) ln (J i i).
Proof. exact: logdet_triangular. Qed.
Print Assumptions C01_triangular_jacobian.

Theorem C01_permutation_conjugation : forall n (s : 'S_n) (A : 'M[R]_n),
  \det (perm_mx s *m A *m (perm_mx s)^T) = \det A.
Proof. exact: det_perm_conj. Qed.
Print Assumptions C01_permutation_conjugation.

(* composed transforms: by the chain rule the Jacobian of g o f is Jg(f x) *m Jf(x); its log|det| is the sum *)
Theorem C01_composition_adds_logdets : forall n (Jg Jf : 'M[R]_n),
  \det Jf != 0 -> \det Jg != 0 ->
  ln (Rabs (\det (Jg *m Jf))) = Rplus (ln (Rabs (\det Jg))) (ln (Rabs (\det Jf))).
Proof. exact: logdet_compose. Qed.
Print Assumptions C01_composition_adds_logdets.

(* ---- the WHOLE rational-quadratic spline (knots from any unnormalised parameters, bin search, bin formula): differentiable at
   every interior point of the box, the knots included (the two neighbouring bin formulas agree there in value and in
   derivative), and the returned log-abs-det is the logarithm of that derivative ---- *)
From NF Require Import Model.SplineRQ Proofs.SplineRQWhole.
Theorem C01_rq_whole_spline_logabsdet_is_log_derivative :
  forall (c : @rq_cfg R) (bx : @box R) (uw uh ud : list R), rq_wellformed c bx uw uh ud ->
  forall x, b_left bx < x < b_right bx ->
    is_derive (F c bx uw uh ud) x (exp (Flad c bx uw uh ud x)) /\ 0 < exp (Flad c bx uw uh ud x).
Proof.
  intros c bx uw uh ud [H1 [H2 [H3 [H4 [H5 [H6 [H7 [H8 [H9 [H10 H11]]]]]]]]]]. apply whole_derivative; assumption.
Qed.
Print Assumptions C01_rq_whole_spline_logabsdet_is_log_derivative.

(* ---- the WHOLE piecewise-quadratic spline likewise (both height forms): its piecewise-linear density is continuous across the
   knots - the neighbouring bins share the node height there - so the spline is differentiable at every interior point of the
   box, knots included, and the returned log-abs-det is the logarithm of that derivative ---- *)
From NF Require Import Model.SplineQuadratic Proofs.SplineQuadWhole.
Theorem C01_quadratic_whole_spline_logabsdet_is_log_derivative :
  forall (minw minh : R) (bx : @box R) (uw uh : list R),
  uw <> nil -> (length uh = S (length uw) \/ (length uh = Nat.sub (length uw) 1 /\ Peano.le 2 (length uw))) ->
  0 <= minw -> minw * INR (length uw) <= 1 -> 0 <= minh -> minh * INR (length uw) <= 1 ->
  b_left bx < b_right bx -> b_bottom bx < b_top bx ->
  forall x, b_left bx < x < b_right bx ->
    is_derive (QF minw minh bx uw uh) x (exp (QFlad minw minh bx uw uh x)) /\ 0 < exp (QFlad minw minh bx uw uh x).
Proof. intros minw minh bx uw uh H1 H2 H3 H4 H5 H6 H7 H8 x Hx. exact (quadratic_whole_derivative minw minh bx uw uh H1 H2 H3 H4 H5 H6 H7 H8 x Hx). Qed.
Print Assumptions C01_quadratic_whole_spline_logabsdet_is_log_derivative.

(* ---- the WHOLE piecewise-cubic spline, forward direction, likewise: neighbouring bins share the node derivative, so the spline is
   differentiable at every interior point of the box, knots included, and the returned log-abs-det is the logarithm of that
   derivative, for ANY unnormalised widths, heights and boundary derivatives ---- *)
From NF Require Import Model.SplineCubic Proofs.SplineCubicWhole Proofs.SplineCubicIntegral.
Theorem C01_cubic_whole_spline_logabsdet_is_log_derivative :
  forall (minw minh eps thr : R) (bx : @box R) (uw uh : list R) (ul ur : R),
  uw <> nil -> length uh = length uw ->
  0 <= minw -> minw * INR (length uw) <= 1 -> 0 <= minh -> minh * INR (length uw) <= 1 ->
  b_left bx < b_right bx -> b_bottom bx < b_top bx ->
  forall x, b_left bx < x < b_right bx ->
    is_derive (CF minw minh eps thr bx uw uh ul ur) x (exp (CFlad minw minh eps thr bx uw uh ul ur x)) /\
    0 < exp (CFlad minw minh eps thr bx uw uh ul ur x).
Proof.
  intros minw minh eps thr bx uw uh ul ur H1 H2 H3 H4 H5 H6 H7 H8 x Hx.
  exact (cubic_whole_derivative minw minh eps thr bx uw uh ul ur H1 H2 H3 H4 H5 H6 H7 H8 x Hx).
Qed.
Print Assumptions C01_cubic_whole_spline_logabsdet_is_log_derivative.

(* ---- the WHOLE piecewise-linear spline: inside every bin (at the knots it has a kink and its log-abs-det jumps) it is
   differentiable and the returned log-abs-det is the logarithm of that derivative, for ANY unnormalised pdf ---- *)
From NF Require Import Model.SplineLinear Proofs.SplineLinearWhole Proofs.SplineLinearIntegral.
Theorem C01_linear_whole_spline_logabsdet_is_log_derivative_off_knots :
  forall (bx : @box R) (u : list R), u <> nil -> b_left bx < b_right bx -> b_bottom bx < b_top bx ->
  forall (k : nat) (x : R), Peano.lt k (length u) -> xl bx u k < x < xl bx u (S k) ->
    is_derive (FL bx u) x (exp (FLlad bx u x)) /\ 0 < exp (FLlad bx u x).
Proof. intros bx u Hne Hlr Hbt k x Hk Hx. exact (linear_whole_derivative_off_knots bx u Hne Hlr Hbt k x Hk Hx). Qed.
Print Assumptions C01_linear_whole_spline_logabsdet_is_log_derivative_off_knots.

(* ---- LogTanh (constants and pieces as generated): the logarithmic tails meet the tanh piece at the cut point, have the
   positive slope alpha / |x|, and the returned log-abs-det is the logarithm of that slope; the inverse tails undo them ---- *)
From NF Require Import Proofs.LogTanhP.
Theorem C01_logtanh_tails : forall c : R, 0 < c ->
  let alpha := logtanh_const_alpha Rops c 0 in let beta := logtanh_const_beta Rops c alpha in
  let icp := logtanh_const_inv_cut_point Rops c alpha in
  (logtanh_fwd_outputs_at_mask_right Rops c 0 alpha beta c icp = logtanh_fwd_outputs_at_mask_middle Rops c 0 alpha beta c icp /\
   logtanh_fwd_outputs_at_mask_left Rops (- c) 0 alpha beta c icp = logtanh_fwd_outputs_at_mask_middle Rops (- c) 0 alpha beta c icp) /\
  (forall x, c < x ->
     is_derive (fun t => logtanh_fwd_outputs_at_mask_right Rops t 0 alpha beta c icp) x (alpha / x) /\ 0 < alpha / x /\
     logtanh_fwd_logabsdet_at_mask_right Rops x 0 alpha beta c icp = ln (alpha / x) /\
     logtanh_inv_outputs_at_mask_right Rops (logtanh_fwd_outputs_at_mask_right Rops x 0 alpha beta c icp) 0 alpha beta c icp = x) /\
  (forall x, x < - c ->
     is_derive (fun t => logtanh_fwd_outputs_at_mask_left Rops t 0 alpha beta c icp) x (- alpha / x) /\ 0 < - alpha / x /\
     logtanh_fwd_logabsdet_at_mask_left Rops x 0 alpha beta c icp = ln (- alpha / x) /\
     logtanh_inv_outputs_at_mask_left Rops (logtanh_fwd_outputs_at_mask_left Rops x 0 alpha beta c icp) 0 alpha beta c icp = x).
Proof.
  intros c Hc. cbv zeta. split; [apply logtanh_continuous_at_cut; exact Hc|].
  split; [intros x Hx; apply logtanh_right_tail; assumption | intros x Hx; apply logtanh_left_tail; assumption].
Qed.
Print Assumptions C01_logtanh_tails.

(* ---- the cubic spline bin: the returned log-abs-det is the logarithm of the derivative of the returned output ---- *)
From NF Require Import Proofs.SplineCubicP.
Theorem C01_cubic_bin : forall xl w yl h dl dr x : R,
  is_derive (cfwd xl w yl h dl dr) x (cder xl w h dl dr x) /\ clad xl w yl h dl dr x = ln (cder xl w h dl dr x).
Proof. intros. split; [apply cubic_derive | apply cubic_lad_is_ln_derivative]. Qed.
Print Assumptions C01_cubic_bin.
