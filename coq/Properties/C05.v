(* C05 -- base distributions are normalised, sample their own density, report true means.  PARTIAL:
   exact results for the Bernoulli and the algebraic structure of the normals are proved; the value of the
   improper Gaussian integral is not available in the installed libraries (a machine-checked numerical
   certificate of the truncated integral is given instead); the random number generator and statistical
   convergence are runtime behaviour. *)
From Coq Require Import Reals List.
From Coquelicot Require Import Coquelicot.
From NF Require Import Base.Ops Base.Rops Gen.Dist Proofs.NonlinP Proofs.DistP Proofs.GaussCert.
Import ListNotations.
Open Scope R_scope.

(* independent Bernoulli: total probability one by exact summation over {0,1}^D, every D, every logit vector *)
Theorem C05_bernoulli_normalised : forall ls : list R,
  rsum (map (fun xs => exp (bern_lp xs ls)) (bits (length ls))) = 1.
Proof. exact bernoulli_normalised. Qed.
Print Assumptions C05_bernoulli_normalised.

Theorem C05_bernoulli_mean_is_sigmoid : forall l : R, 0 * exp (bern_term 0 l) + 1 * exp (bern_term 1 l) = sig l.
Proof. exact bernoulli_mean. Qed.
Print Assumptions C05_bernoulli_mean_is_sigmoid.

(* standard normal: the generated log-density is the product of D copies of 1/sqrt(2 pi) exp(-x^2/2) ... *)
Theorem C05_standard_normal_factor : forall x : R, exp (sn_lp1 x) = / sqrt (2 * PI) * exp (- (x * x) / 2).
Proof. exact sn_lp1_closed. Qed.
Theorem C05_standard_normal_factorises : forall xs : list R,
  rsum (map (sn_neg_energy_term Rops) xs) - sn_log_z Rops (INR (length xs)) = rsum (map sn_lp1 xs).
Proof. exact standard_normal_factorises. Qed.
Print Assumptions C05_standard_normal_factor.
Print Assumptions C05_standard_normal_factorises.

(* ... and the one-dimensional factor integrates to one up to 1e-6 on [-8, 8] (certified by interval arithmetic),
   with the mass beyond dominated by exp(-4|x|), i.e. below 1e-13 *)
Theorem C05_gaussian_normaliser_certificate :
  Rabs (RInt (fun x => exp (- (x * x) / 2)) (-8) 8 - sqrt (2 * PI)) <= 1 / 1000000 /\
  (forall x, 8 <= x -> exp (- (x * x) / 2) <= exp (- (4 * x))) /\ exp (-32) / 4 <= 1 / 10000000000000.
Proof. split; [exact gauss_truncated_cert | split; [exact gauss_tail_dominated | exact gauss_tail_mass_small]]. Qed.
Print Assumptions C05_gaussian_normaliser_certificate.

(* diagonal / conditional diagonal normal: standard density at the standardised value, minus log sigma = the log
   of the derivative of the standardisation; both classes use the same expressions *)
Theorem C05_diagonal_normal_is_standardised_standard_normal : forall x mu ls : R,
  cdn_energy_term Rops (cdn_norm_input Rops x mu ls) - ls - sn_log_z Rops 1 = sn_lp1 ((x - mu) * exp (- ls)) - ls /\
  dn_energy_term Rops (dn_norm_input Rops x mu ls) = cdn_energy_term Rops (cdn_norm_input Rops x mu ls) /\
  is_derive (fun v => (v - mu) * exp (- ls)) x (exp (- ls)) /\ ln (exp (- ls)) = - ls.
Proof. exact diagonal_normal_reduces_to_standard. Qed.
Print Assumptions C05_diagonal_normal_is_standardised_standard_normal.

(* sampling mean + std * noise pushes the noise's law forward: P(sample <= a) = P(noise <= (a - mean)/std) *)
Theorem C05_normal_sampling_pushforward : forall mu sigma z a : R, 0 < sigma ->
  (cdn_sample Rops mu sigma z <= a <-> z <= (a - mu) / sigma).
Proof. exact affine_pushforward. Qed.
Print Assumptions C05_normal_sampling_pushforward.
