(* C19 -- single precision agrees with double precision and stays finite.  PARTIAL, stated plainly:
   PROVED here: (1) results carry the dtype of the inputs - a promotion-lattice theorem plus a table, regenerated
   from the source, of every dtype-fixing construct on evaluation paths; (2) the one place where a comparison-only
   kernel decides a discrete outcome, the bin search, returns an in-range index in ANY carrier including float32
   (so precision cannot make in-domain inputs fail); (3) the real-arithmetic facts that keep the formulas away
   from singularities (positive denominators / discriminants of the rational-quadratic bin, the stable roots).
   NOT PROVED (out of reach of this tool-chain: no verified libm, no Gappa): a forward error bound
   |f32(x) - f64(x)| <= c u kappa(x) for the transcendental code.  That part is covered only by the differential
   search float32-vs-float64, which is testing. *)
From Coq Require Import Reals ZArith String List Bool.
From NF Require Import Base.Ops Gen.Utils Gen.Tables Model.Utils Model.Tables Model.Dtype
  Proofs.TablesP Proofs.DtypeP Proofs.DomainP Proofs.SplineRQP.

Theorem C19_result_dtype_follows_input : forall (d : fdtype) (e : expr),
  mentions_input e = true -> eval d e = Tensor d.
Proof. exact dtype_follows_input. Qed.
Print Assumptions C19_result_dtype_follows_input.

(* no evaluation path contains a cast to float32 or a factory call without dtype whose value reaches a returned
   floating-point result in another dtype (rows outside the reviewed (file, function) list break this proof) *)
Theorem C19_no_dtype_fixing_on_evaluation_paths : forallb dtype_ok dtype_table = true.
Proof. exact dtype_table_ok. Qed.
Print Assumptions C19_no_dtype_fixing_on_evaluation_paths.

Theorem C19_bin_index_in_range_in_any_precision :
  forall (T : Type) (O : ops T) (locs : list T) (x : T) (K : nat),
    length locs = S K -> (1 <= K)%nat -> utils_searchsorted_cmp O x (hd x locs) = true ->
    (0 <= searchsorted O locs x < Z.of_nat K)%Z.
Proof. exact @searchsorted_index_in_range. Qed.
Print Assumptions C19_bin_index_in_range_in_any_precision.

(* margins over the reals: the rational-quadratic denominator and derivative numerator are strictly positive on
   the whole bin and the inverse's discriminant is non-negative, so no log / division / sqrt is evaluated at or
   beyond a singularity *)
Theorem C19_rq_margins : forall w yk h d0 d1 : R, (0 < w)%R -> (0 < h)%R -> (0 < d0)%R -> (0 < d1)%R ->
  (forall t, (0 <= t <= 1)%R -> (0 < den w h d0 d1 t)%R /\ (0 < dnum w h d0 d1 t)%R) /\
  (forall y, (yk <= y <= yk + h)%R -> (0 <= disc w yk h d0 d1 y)%R /\ (- qb w yk h d0 d1 y - sqrt (disc w yk h d0 d1 y) < 0)%R).
Proof.
  intros w yk h d0 d1 Hw Hh H0 H1. split.
  - intros t Ht. split; [apply den_pos | apply dnum_pos]; assumption.
  - intros y Hy. split; [apply disc_nonneg | apply q_neg]; assumption.
Qed.
Print Assumptions C19_rq_margins.

(* ---- single precision as a third instance of the operation dictionary ([Fops32]: every arithmetic result rounded to the nearest
   binary32 number, Flocq).  The regenerated affine formulas evaluated in it - what float32 computes - differ from their exact
   values by single-precision accuracy scaled by the size of the terms, whenever no intermediate result is subnormal ---- *)
From Coq Require Import Reals.
From NF Require Import Base.Rops Gen.Norm Gen.Dist Proofs.Float32P.
Theorem C19_actnorm_forward_float32_error : forall scale shift x : R,
  (tiny32 <= Rabs (scale * x))%R -> (tiny32 <= Rabs (rnd32 (scale * x) + shift))%R ->
  (Rabs (an_forward_out Fops32 scale shift x - an_forward_out Rops scale shift x)
   <= u32 * (2 + u32) * Rabs (scale * x) + u32 * Rabs shift)%R.
Proof. intros scale shift x H1 H2. exact (actnorm_forward_float32_error scale shift x H1 H2). Qed.
Print Assumptions C19_actnorm_forward_float32_error.

Theorem C19_actnorm_inverse_float32_error : forall scale shift y : R,
  scale <> 0%R -> (tiny32 <= Rabs (y - shift))%R -> (tiny32 <= Rabs (rnd32 (y - shift) / scale))%R ->
  (Rabs (an_inverse_out Fops32 scale shift y - an_inverse_out Rops scale shift y) <= u32 * (2 + u32) * Rabs ((y - shift) / scale))%R.
Proof. intros scale shift y Hs H1 H2. exact (actnorm_inverse_float32_error scale shift y Hs H1 H2). Qed.
Print Assumptions C19_actnorm_inverse_float32_error.

Theorem C19_conditional_normal_sampler_float32_error : forall mean std noise : R,
  (tiny32 <= Rabs (std * noise))%R -> (tiny32 <= Rabs (rnd32 (std * noise) + mean))%R ->
  (Rabs (cdn_sample Fops32 mean std noise - cdn_sample Rops mean std noise)
   <= u32 * (2 + u32) * Rabs (std * noise) + u32 * Rabs mean)%R.
Proof. intros mean std noise H1 H2. exact (cdn_sample_float32_error mean std noise H1 H2). Qed.
Print Assumptions C19_conditional_normal_sampler_float32_error.

Example C19_float32_hypotheses_hold_for_ordinary_values :
  (tiny32 <= Rabs (2 * 3) /\ tiny32 <= Rabs (rnd32 (2 * 3) + 1) /\ rnd32 (2 * 3) = 6 /\ u32 = / 16777216)%R.
Proof. destruct float32_hypotheses_hold_for_ordinary_values as [A [B C]]. repeat split; try assumption. exact u32_val. Qed.

From NF Require Import Gen.SplineRQ.
Theorem C19_spline_denormalisation_float32_error : forall left right c : R,
  (tiny32 <= Rabs (right - left))%R -> (tiny32 <= Rabs (rnd32 (right - left) * c))%R ->
  (tiny32 <= Rabs (rnd32 (rnd32 (right - left) * c) + left))%R ->
  (Rabs (rq_cumwidth_affine Fops32 left right c - rq_cumwidth_affine Rops left right c)
   <= u32 * (3 + 3 * u32 + u32 * u32) * Rabs ((right - left) * c) + u32 * Rabs left)%R.
Proof. intros left right c H0 H1 H2. exact (rq_denormalise_float32_error left right c H0 H1 H2). Qed.
Print Assumptions C19_spline_denormalisation_float32_error.

(* BatchNorm's evaluation-mode forward map, six rounded operations with a square root and a division among them, through a small
   relative-error calculus over the same dictionary (Proofs/Float32Rel.v).  The square root is ANY function within 2u of the exact
   one (every faithful rounding): torch's vectorised float32 square root is not always correctly rounded - the correspondence run
   found such an input - so the correctly rounded entry of Fops32 would have been an idealisation here. *)
From NF Require Import Proofs.Float32Rel.
Theorem C19_batchnorm_forward_float32_error : forall (sq : R -> R) (w b eps x m v : R),
  (forall a, 0 <= a -> Rabs (sq a - sqrt a) <= 2 * u32 * sqrt a)%R ->
  (0 < v + eps)%R ->
  (tiny32 <= Rabs (x - m))%R -> (tiny32 <= Rabs (v + eps))%R ->
  (tiny32 <= Rabs (rnd32 (x - m) / sq (rnd32 (v + eps))))%R ->
  (tiny32 <= Rabs (w * rnd32 (rnd32 (x - m) / sq (rnd32 (v + eps)))))%R ->
  (tiny32 <= Rabs (rnd32 (w * rnd32 (rnd32 (x - m) / sq (rnd32 (v + eps)))) + b))%R ->
  (Rabs (bn_forward_out (Fops32_sqrt sq) w b eps x m v - bn_forward_out Rops w b eps x m v)
   <= 8 * u32 * (1 + u32) * Rabs (w * ((x - m) / sqrt (v + eps))) + u32 * (Rabs (w * ((x - m) / sqrt (v + eps))) + Rabs b))%R.
Proof. intros sq w b eps x m v Hsq Hv N1 N2 N4 N5 N6. exact (bn_forward_float32_error sq w b eps x m v Hsq Hv N1 N2 N4 N5 N6). Qed.
Print Assumptions C19_batchnorm_forward_float32_error.

(* the hypotheses of the BatchNorm bound are met by ordinary values (weight 2, bias 1, mean 1, variance 4, input 3; the exact square
   root is one admissible [sq]) *)
Example C19_batchnorm_hypotheses_hold_for_ordinary_values :
  let sq := sqrt in let w := 2%R in let b := 1%R in let eps := 0%R in let x := 3%R in let m := 1%R in let v := 4%R in
  ((forall a, 0 <= a -> Rabs (sq a - sqrt a) <= 2 * u32 * sqrt a) /\ 0 < v + eps /\
   tiny32 <= Rabs (x - m) /\ tiny32 <= Rabs (v + eps) /\ tiny32 <= Rabs (rnd32 (x - m) / sq (rnd32 (v + eps))) /\
   tiny32 <= Rabs (w * rnd32 (rnd32 (x - m) / sq (rnd32 (v + eps)))) /\
   tiny32 <= Rabs (rnd32 (w * rnd32 (rnd32 (x - m) / sq (rnd32 (v + eps)))) + b))%R.
Proof. exact bn_hypotheses_hold_for_ordinary_values. Qed.

(* the same bound for the output side, (top - bottom) * c + bottom : the generated formula has the same shape *)
Theorem C19_spline_height_denormalisation_float32_error : forall bottom top c : R,
  (tiny32 <= Rabs (top - bottom))%R -> (tiny32 <= Rabs (rnd32 (top - bottom) * c))%R ->
  (tiny32 <= Rabs (rnd32 (rnd32 (top - bottom) * c) + bottom))%R ->
  (Rabs (rq_cumheight_affine Fops32 bottom top c - rq_cumheight_affine Rops bottom top c)
   <= u32 * (3 + 3 * u32 + u32 * u32) * Rabs ((top - bottom) * c) + u32 * Rabs bottom)%R.
Proof. intros bottom top c H0 H1 H2. exact (rq_denormalise_float32_error bottom top c H0 H1 H2). Qed.
