(* C19 -- single precision agrees with double precision and stays finite.  PARTIAL, stated plainly:
   PROVED here: (1) results carry the dtype of the inputs - a promotion-lattice theorem plus a table, regenerated
   from the source, of every dtype-fixing construct on evaluation paths; (2) the one place where a comparison-only
   kernel decides a discrete outcome, the bin search, returns an in-range index in ANY carrier including float32
   (so precision cannot make in-domain inputs fail); (3) the real-arithmetic facts that keep the formulas away
   from singularities (positive denominators / discriminants of the rational-quadratic bin, the stable roots).
   NOT PROVED (out of reach of this tool-chain: no verified libm, no Gappa): a forward error bound
   |f32(x) - f64(x)| <= c u kappa(x) for the transcendental code.  That part is covered only by the differential
   search float32-vs-float64, which is testing. *)
From Coq Require Import Reals ZArith String List Bool.
From NF Require Import Base.Ops Gen.Utils Gen.Tables Model.Utils Model.Tables Model.Dtype
  Proofs.TablesP Proofs.DtypeP Proofs.DomainP Proofs.SplineRQP.

Theorem C19_result_dtype_follows_input : forall (d : fdtype) (e : expr),
  mentions_input e = true -> eval d e = Tensor d.
Proof. exact dtype_follows_input. Qed.
Print Assumptions C19_result_dtype_follows_input.

(* no evaluation path contains a cast to float32 or a factory call without dtype whose value reaches a returned
   floating-point result in another dtype (rows outside the reviewed (file, function) list break this proof) *)
Theorem C19_no_dtype_fixing_on_evaluation_paths : forallb dtype_ok dtype_table = true.
Proof. exact dtype_table_ok. Qed.
Print Assumptions C19_no_dtype_fixing_on_evaluation_paths.

Theorem C19_bin_index_in_range_in_any_precision :
  forall (T : Type) (O : ops T) (locs : list T) (x : T) (K : nat),
    length locs = S K -> (1 <= K)%nat -> utils_searchsorted_cmp O x (hd x locs) = true ->
    (0 <= searchsorted O locs x < Z.of_nat K)%Z.
Proof. exact @searchsorted_index_in_range. Qed.
Print Assumptions C19_bin_index_in_range_in_any_precision.

(* margins over the reals: the rational-quadratic denominator and derivative numerator are strictly positive on
   the whole bin and the inverse's discriminant is non-negative, so no log / division / sqrt is evaluated at or
   beyond a singularity *)
Theorem C19_rq_margins : forall w yk h d0 d1 : R, (0 < w)%R -> (0 < h)%R -> (0 < d0)%R -> (0 < d1)%R ->
  (forall t, (0 <= t <= 1)%R -> (0 < den w h d0 d1 t)%R /\ (0 < dnum w h d0 d1 t)%R) /\
  (forall y, (yk <= y <= yk + h)%R -> (0 <= disc w yk h d0 d1 y)%R /\ (- qb w yk h d0 d1 y - sqrt (disc w yk h d0 d1 y) < 0)%R).
Proof.
  intros w yk h d0 d1 Hw Hh H0 H1. split.
  - intros t Ht. split; [apply den_pos | apply dnum_pos]; assumption.
  - intros y Hy. split; [apply disc_nonneg | apply q_neg]; assumption.
Qed.
Print Assumptions C19_rq_margins.
