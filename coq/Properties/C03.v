(* C03 -- a flow's log_prob is a normalised probability density.  PARTIAL: the property's own equivalent form
   (log_prob = base log-density at the transformed point + log-abs-det; the transform maps the data space
   one-to-one onto the support) is what is proved, in one dimension with the exact substitution rule; the
   multivariate change-of-variables theorem and the improper Gaussian integral are not available in the installed
   libraries and are not claimed. *)
From Coq Require Import Reals List.
From Coquelicot Require Import Coquelicot.
From NF Require Import Base.Ops Base.Rops Gen.Dist Gen.Nonlin Proofs.FlowP Proofs.SplineRQP Proofs.NonlinP.
Local Open Scope R_scope.

(* log_prob is the base log-density at the transformed point plus the transform's log-abs-det (generated from
   Flow._log_prob, which hands the same embedded context to both) *)
Theorem C03_log_prob_decomposition : forall base_lp lad : R, flow_log_prob Rops base_lp lad = base_lp + lad.
Proof. reflexivity. Qed.
Print Assumptions C03_log_prob_decomposition.

(* one-dimensional change of variables on ANY interval: the integral of exp(log_prob) = g' * phi(g) over [a, b]
   is the base mass of [g a, g b]; hence the flow's total mass is the base's mass of the image of the data space *)
Theorem C03_change_of_variables_1d : forall (g dg phi : R -> R) (a b : R), a <= b ->
  (forall x, a <= x <= b -> is_derive g x (dg x)) -> (forall x, a <= x <= b -> continuous dg x) ->
  (forall x, a <= x <= b -> continuous phi (g x)) ->
  is_RInt (fun x => scal (dg x) (phi (g x))) a b (RInt phi (g a) (g b)).
Proof. exact change_of_variables_1d. Qed.
Print Assumptions C03_change_of_variables_1d.

(* bounded transformers map their interval ONTO the full target interval: for the rational-quadratic bin every
   y of the output bin has a pre-image in the input bin, and the end points are pinned (C09); the exponential's
   inverse covers all positive reals *)
Theorem C03_rq_bin_onto_and_pinned : forall xk w yk h d0 d1 : R, 0 < w -> 0 < h -> 0 < d0 -> 0 < d1 ->
  fwd xk w yk h d0 d1 xk = yk /\ fwd xk w yk h d0 d1 (xk + w) = yk + h /\
  forall y, yk <= y <= yk + h -> xk <= inv xk w yk h d0 d1 y <= xk + w /\ fwd xk w yk h d0 d1 (inv xk w yk h d0 d1 y) = y.
Proof.
  intros xk w yk h d0 d1 Hw Hh H0 H1. split; [apply fwd_left; assumption|]. split; [apply fwd_right; assumption|].
  intros y Hy. split; [apply inv_in_bin | apply fwd_inv]; assumption.
Qed.
Print Assumptions C03_rq_bin_onto_and_pinned.

Theorem C03_exp_onto_positive_reals : forall y : R, 0 < y -> exp_fwd_ret0 Rops (exp_inv_ret0 Rops y) = y.
Proof. intros y Hy. apply (exp_round_trip 0 y Hy). Qed.
Print Assumptions C03_exp_onto_positive_reals.

(* the whole rational-quadratic spline maps [left, right] ONTO [bottom, top]: every value of the target interval is attained *)
From NF Require Import Base.Result Model.SplineRQ Proofs.SplineRQWhole.
Theorem C03_rq_whole_spline_onto :
  forall (c : @rq_cfg R) (bx : @box R) (uw uh ud : list R), rq_wellformed c bx uw uh ud ->
  forall y, b_bottom bx <= y <= b_top bx -> exists x, (b_left bx <= x <= b_right bx) /\ F c bx uw uh ud x = y.
Proof.
  intros c bx uw uh ud [H1 [H2 [H3 [H4 [H5 [H6 [H7 [H8 [H9 [H10 H11]]]]]]]]]] y Hy.
  destruct (whole_forward_of_inverse c bx uw uh ud H1 H2 H3 H4 H5 H6 H7 H8 H9 H10 H11 y Hy) as [x [l [_ [Hx [E _]]]]].
  exists x. split; assumption.
Qed.
Print Assumptions C03_rq_whole_spline_onto.

(* ---- change of variables through the WHOLE rational-quadratic spline: for every accepted configuration, all unnormalised
   parameters and every base density phi continuous on the target interval, the density phi(F x) * exp(logabsdet x) of the
   spline flow integrates over [left, right] to exactly the base mass of [bottom, top].  (Bin by bin - inside a bin the generated
   output formula is smooth with the continuous derivative exp(logabsdet) - and glued with Chasles.) ---- *)
Theorem C03_rq_whole_spline_change_of_variables :
  forall (c : @rq_cfg R) (bx : @box R) (uw uh ud : list R), rq_wellformed c bx uw uh ud ->
  forall phi : R -> R, (forall y, b_bottom bx <= y <= b_top bx -> continuous phi y) ->
  is_RInt (fun x => phi (F c bx uw uh ud x) * exp (Flad c bx uw uh ud x)) (b_left bx) (b_right bx)
          (RInt phi (b_bottom bx) (b_top bx)).
Proof.
  intros c bx uw uh ud [H1 [H2 [H3 [H4 [H5 [H6 [H7 [H8 [H9 [H10 H11]]]]]]]]]] phi Hphi.
  exact (whole_change_of_variables c bx uw uh ud H1 H2 H3 H4 H5 H6 H7 H8 H9 H10 H11 phi Hphi).
Qed.
Print Assumptions C03_rq_whole_spline_change_of_variables.

(* ---- the one-dimensional flow Flow(rational-quadratic spline with linear tails, StandardNormal): exp(log_prob), built from the
   generated flow_log_prob, Gaussian energy term and normaliser, integrates over [-A, A] to exactly the standard normal mass of
   [-A, A], for every A beyond the tail bound, every accepted configuration and ALL unnormalised parameters; with
   C05_gaussian_normaliser_certificate that mass is within 1e-6 / sqrt(2 pi) of one at A = 8 ---- *)
From Coq Require Import Lra Arith.
From NF Require Import Gen.SplineRQ Proofs.SplineRQTails Proofs.FlowNormalised Proofs.DistP.
Theorem C03_rq_spline_flow_carries_the_base_mass :
  forall (c : @rq_cfg R) (B : R) (uw uh ud : list R), 0 < B ->
  rq_wellformed c {| b_left := - B; b_right := B; b_bottom := - B; b_top := B |} uw uh
                (rq_tail_constant Rops (min_derivative c) :: ud ++ (rq_tail_constant Rops (min_derivative c) :: nil)) ->
  forall A, B <= A ->
  is_RInt (fun x => exp (spline_flow_log_prob c B uw uh ud x)) (- A) A (RInt (fun y => exp (sn_lp1 y)) (- A) A).
Proof. intros c B uw uh ud HB Hwf A HA. apply spline_flow_carries_the_base_mass; assumption. Qed.
Print Assumptions C03_rq_spline_flow_carries_the_base_mass.

(* the hypotheses are met by the library's default configuration with three bins, tail bound 3 and any parameters *)
Example C03_default_spline_flow_is_covered : forall (u1 u2 u3 h1 h2 h3 e1 e2 : R),
  rq_wellformed (rq_default_cfg Rops) {| b_left := - 3; b_right := 3; b_bottom := - 3; b_top := 3 |}
                (u1 :: u2 :: u3 :: nil) (h1 :: h2 :: h3 :: nil)
                (rq_tail_constant Rops (min_derivative (rq_default_cfg Rops)) :: (e1 :: e2 :: nil) ++
                 (rq_tail_constant Rops (min_derivative (rq_default_cfg Rops)) :: nil)).
Proof. intros. apply default_wellformed; cbn; try reflexivity; try lra. split; [apply Nat.lt_0_succ | repeat constructor]. Qed.

(* ---- the WHOLE piecewise-linear spline under an integral: although its log-abs-det jumps at every knot, the density
   phi(F x) exp(logabsdet x) integrates over [left, right] to the base mass of [bottom, top], for ANY unnormalised pdf and any
   continuous base density ---- *)
From NF Require Import Model.SplineLinear Proofs.SplineLinearWhole Proofs.SplineLinearIntegral.
Theorem C03_linear_whole_spline_change_of_variables :
  forall (bx : @box R) (u : list R), u <> nil -> b_left bx < b_right bx -> b_bottom bx < b_top bx ->
  forall phi : R -> R, (forall y, b_bottom bx <= y <= b_top bx -> continuous phi y) ->
  is_RInt (fun x => phi (FL bx u x) * exp (FLlad bx u x)) (b_left bx) (b_right bx) (RInt phi (b_bottom bx) (b_top bx)).
Proof. intros bx u Hne Hlr Hbt phi Hphi. exact (linear_whole_change_of_variables bx u Hne Hlr Hbt phi Hphi). Qed.
Print Assumptions C03_linear_whole_spline_change_of_variables.

(* Flow(PiecewiseLinearCDF, uniform on [0, 1]) (log-density of the base: 0 on the unit interval): exp(log_prob), with the
   generated flow_log_prob, integrates to exactly one over the unit interval for every parameter vector *)
Theorem C03_linear_cdf_flow_over_the_unit_uniform_is_normalised :
  forall u : list R, u <> nil ->
  is_RInt (fun x => exp (flow_log_prob Rops 0 (FLlad {| b_left := 0; b_right := 1; b_bottom := 0; b_top := 1 |} u x))) 0 1 1.
Proof. intros u Hne. exact (linear_cdf_flow_normalised u Hne). Qed.
Print Assumptions C03_linear_cdf_flow_over_the_unit_uniform_is_normalised.

(* ---- the same through the WHOLE piecewise-quadratic spline (both height forms), whose derivative is continuous but has a kink
   at every knot ---- *)
From NF Require Import Model.SplineQuadratic Proofs.SplineQuadWhole Proofs.SplineQuadIntegral.
Theorem C03_quadratic_whole_spline_change_of_variables :
  forall (minw minh : R) (bx : @box R) (uw uh : list R), uw <> nil ->
  length uh = S (length uw) \/ (length uh = (length uw - 1)%nat /\ (2 <= length uw)%nat) ->
  0 <= minw -> minw * INR (length uw) <= 1 -> 0 <= minh -> minh * INR (length uw) <= 1 ->
  b_left bx < b_right bx -> b_bottom bx < b_top bx ->
  forall phi : R -> R, (forall y, b_bottom bx <= y <= b_top bx -> continuous phi y) ->
  is_RInt (fun x => phi (QF minw minh bx uw uh x) * exp (QFlad minw minh bx uw uh x)) (b_left bx) (b_right bx)
          (RInt phi (b_bottom bx) (b_top bx)).
Proof.
  intros minw minh bx uw uh HK Hlh Hw0 HwK Hh0 HhK Hlr Hbt phi Hphi.
  exact (quadratic_whole_change_of_variables minw minh bx uw uh HK Hlh Hw0 HwK Hh0 HhK Hlr Hbt phi Hphi).
Qed.
Print Assumptions C03_quadratic_whole_spline_change_of_variables.

Theorem C03_quadratic_cdf_flow_over_the_unit_uniform_is_normalised :
  forall (minw minh : R) (uw uh : list R), uw <> nil ->
  length uh = S (length uw) \/ (length uh = (length uw - 1)%nat /\ (2 <= length uw)%nat) ->
  0 <= minw -> minw * INR (length uw) <= 1 -> 0 <= minh -> minh * INR (length uw) <= 1 ->
  is_RInt (fun x => exp (flow_log_prob Rops 0 (QFlad minw minh {| b_left := 0; b_right := 1; b_bottom := 0; b_top := 1 |} uw uh x))) 0 1 1.
Proof. intros minw minh uw uh HK Hlh Hw0 HwK Hh0 HhK. exact (quadratic_cdf_flow_normalised minw minh uw uh HK Hlh Hw0 HwK Hh0 HhK). Qed.
Print Assumptions C03_quadratic_cdf_flow_over_the_unit_uniform_is_normalised.

(* the hypotheses are met by the library's default minimum bin width / height (1e-3) with five bins and ANY parameters *)
From Coq Require Import Lra.
From NF Require Import Gen.SplineQuadratic.
Example C03_default_quadratic_cdf_flow_is_covered : forall (u1 u2 u3 u4 u5 h0 h1 h2 h3 h4 h5 : R),
  is_RInt (fun x => exp (flow_log_prob Rops 0 (QFlad (quad_DEFAULT_MIN_BIN_WIDTH Rops) (quad_DEFAULT_MIN_BIN_HEIGHT Rops)
                                                 {| b_left := 0; b_right := 1; b_bottom := 0; b_top := 1 |}
                                                 (u1 :: u2 :: u3 :: u4 :: u5 :: nil) (h0 :: h1 :: h2 :: h3 :: h4 :: h5 :: nil) x))) 0 1 1.
Proof.
  intros. apply C03_quadratic_cdf_flow_over_the_unit_uniform_is_normalised.
  - discriminate.
  - left. reflexivity.
  - unfold quad_DEFAULT_MIN_BIN_WIDTH, o_lit. cbn [o_div o_ofZ Rops]. lra.
  - unfold quad_DEFAULT_MIN_BIN_WIDTH, o_lit. cbn [o_div o_ofZ Rops length INR]. lra.
  - unfold quad_DEFAULT_MIN_BIN_HEIGHT, o_lit. cbn [o_div o_ofZ Rops]. lra.
  - unfold quad_DEFAULT_MIN_BIN_HEIGHT, o_lit. cbn [o_div o_ofZ Rops length INR]. lra.
Qed.

(* ---- and through the WHOLE piecewise-cubic spline, forward direction (the direction log_prob uses): any unnormalised widths,
   heights and boundary derivatives ---- *)
From NF Require Import Model.SplineCubic Proofs.SplineCubicWhole Proofs.SplineCubicIntegral.
Theorem C03_cubic_whole_spline_change_of_variables :
  forall (minw minh eps thr : R) (bx : @box R) (uw uh : list R) (ul ur : R), uw <> nil -> length uh = length uw ->
  0 <= minw -> minw * INR (length uw) <= 1 -> 0 <= minh -> minh * INR (length uw) <= 1 ->
  b_left bx < b_right bx -> b_bottom bx < b_top bx ->
  forall phi : R -> R, (forall y, b_bottom bx <= y <= b_top bx -> continuous phi y) ->
  is_RInt (fun x => phi (CF minw minh eps thr bx uw uh ul ur x) * exp (CFlad minw minh eps thr bx uw uh ul ur x)) (b_left bx) (b_right bx)
          (RInt phi (b_bottom bx) (b_top bx)).
Proof.
  intros minw minh eps thr bx uw uh ul ur HK Hlh Hw0 HwK Hh0 HhK Hlr Hbt phi Hphi.
  exact (cubic_whole_change_of_variables minw minh eps thr bx uw uh ul ur HK Hlh Hw0 HwK Hh0 HhK Hlr Hbt phi Hphi).
Qed.
Print Assumptions C03_cubic_whole_spline_change_of_variables.

(* ---- the one-dimensional flows Flow(piecewise-linear / -quadratic / -cubic spline with linear tails, StandardNormal([1])):
   exp(log_prob), built from the generated flow_log_prob, Gaussian energy term and normaliser, integrates over [-A, A] to exactly the
   standard normal mass of [-A, A], for every A beyond the tail bound, every accepted configuration and ALL parameters ---- *)
From NF Require Import Proofs.SplineLinearTails Proofs.SplineQuadTails Proofs.SplineCubicTails Proofs.FlowNormalisedLQC.
Theorem C03_linear_spline_flow_carries_the_base_mass :
  forall (B : R) (u : list R), 0 < B -> u <> nil -> forall A, B <= A ->
  is_RInt (fun x => exp (flow_log_prob Rops (sn_lp1 (UL B u x)) (ULlad B u x))) (- A) A (RInt (fun y => exp (sn_lp1 y)) (- A) A).
Proof. intros B u HB Hne A HA. exact (linear_flow_carries_the_base_mass B u HB Hne A HA). Qed.
Print Assumptions C03_linear_spline_flow_carries_the_base_mass.

Theorem C03_quadratic_spline_flow_carries_the_base_mass :
  forall (minw minh B : R) (uw uh : list R), 0 < B -> uw <> nil -> (2 <= length uw)%nat -> length uh = (length uw - 1)%nat ->
  0 <= minw -> minw * INR (length uw) <= 1 -> 0 <= minh -> minh * INR (length uw) <= 1 -> forall A, B <= A ->
  is_RInt (fun x => exp (flow_log_prob Rops (sn_lp1 (UQ minw minh B uw uh x)) (UQlad minw minh B uw uh x))) (- A) A
          (RInt (fun y => exp (sn_lp1 y)) (- A) A).
Proof.
  intros minw minh B uw uh HB HK H2 Hlh Hw0 HwK Hh0 HhK A HA.
  exact (quadratic_flow_carries_the_base_mass minw minh B uw uh HB HK H2 Hlh Hw0 HwK Hh0 HhK A HA).
Qed.
Print Assumptions C03_quadratic_spline_flow_carries_the_base_mass.

Theorem C03_cubic_spline_flow_carries_the_base_mass :
  forall (minw minh eps thr B : R) (uw uh : list R) (ul ur : R), 0 < B -> uw <> nil -> length uh = length uw ->
  0 <= minw -> minw * INR (length uw) <= 1 -> 0 <= minh -> minh * INR (length uw) <= 1 -> forall A, B <= A ->
  is_RInt (fun x => exp (flow_log_prob Rops (sn_lp1 (UC minw minh eps thr B uw uh ul ur x)) (UClad minw minh eps thr B uw uh ul ur x))) (- A) A
          (RInt (fun y => exp (sn_lp1 y)) (- A) A).
Proof.
  intros minw minh eps thr B uw uh ul ur HB HK Hlh Hw0 HwK Hh0 HhK A HA.
  exact (cubic_flow_carries_the_base_mass minw minh eps thr B uw uh ul ur HB HK Hlh Hw0 HwK Hh0 HhK A HA).
Qed.
Print Assumptions C03_cubic_spline_flow_carries_the_base_mass.

(* ---- two features: Flow(PiecewiseRationalQuadraticCDF([2], tails='linear'), StandardNormal([2])) - one spline per feature, each
   with its own parameters; log_prob of a row from the generated D-dimensional energy term, log-normaliser and flow_log_prob with
   the two log-abs-dets summed.  Its density integrates over the square [-A, A]^2 (iterated integral) to the square of the standard
   normal mass of [-A, A]; likewise with a linear spline on one feature and a cubic one on the other ---- *)
From NF Require Import Proofs.FlowProduct.
Theorem C03_two_feature_rq_spline_flow_carries_the_product_mass :
  forall (c : @rq_cfg R) (B : R) (uw1 uh1 ud1 uw2 uh2 ud2 : list R), 0 < B ->
  rq_wellformed c {| b_left := - B; b_right := B; b_bottom := - B; b_top := B |} uw1 uh1
                (rq_tail_constant Rops (min_derivative c) :: ud1 ++ (rq_tail_constant Rops (min_derivative c) :: nil)) ->
  rq_wellformed c {| b_left := - B; b_right := B; b_bottom := - B; b_top := B |} uw2 uh2
                (rq_tail_constant Rops (min_derivative c) :: ud2 ++ (rq_tail_constant Rops (min_derivative c) :: nil)) ->
  forall A, B <= A ->
  is_RInt (fun x => RInt (fun y => exp (log_prob2 (U c B uw1 uh1 ud1) (Ulad c B uw1 uh1 ud1) (U c B uw2 uh2 ud2) (Ulad c B uw2 uh2 ud2) x y)) (- A) A)
          (- A) A (RInt (fun y => exp (sn_lp1 y)) (- A) A * RInt (fun y => exp (sn_lp1 y)) (- A) A).
Proof.
  intros c B uw1 uh1 ud1 uw2 uh2 ud2 HB W1 W2 A HA.
  apply two_feature_flow_carries_the_product_mass.
  - exact (spline_flow_carries_the_base_mass c B uw1 uh1 ud1 HB W1 A HA).
  - exact (spline_flow_carries_the_base_mass c B uw2 uh2 ud2 HB W2 A HA).
Qed.
Print Assumptions C03_two_feature_rq_spline_flow_carries_the_product_mass.

Theorem C03_two_feature_linear_and_cubic_spline_flow_carries_the_product_mass :
  forall (B : R) (u : list R) (minw minh eps thr : R) (uw uh : list R) (ul ur : R), 0 < B -> u <> nil ->
  uw <> nil -> length uh = length uw -> 0 <= minw -> minw * INR (length uw) <= 1 -> 0 <= minh -> minh * INR (length uw) <= 1 ->
  forall A, B <= A ->
  is_RInt (fun x => RInt (fun y => exp (log_prob2 (UL B u) (ULlad B u) (UC minw minh eps thr B uw uh ul ur) (UClad minw minh eps thr B uw uh ul ur) x y)) (- A) A)
          (- A) A (RInt (fun y => exp (sn_lp1 y)) (- A) A * RInt (fun y => exp (sn_lp1 y)) (- A) A).
Proof.
  intros B u minw minh eps thr uw uh ul ur HB Hne HK Hlh Hw0 HwK Hh0 HhK A HA.
  apply two_feature_flow_carries_the_product_mass.
  - exact (linear_flow_carries_the_base_mass B u HB Hne A HA).
  - exact (cubic_flow_carries_the_base_mass minw minh eps thr B uw uh ul ur HB HK Hlh Hw0 HwK Hh0 HhK A HA).
Qed.
Print Assumptions C03_two_feature_linear_and_cubic_spline_flow_carries_the_product_mass.
