(* C13 -- evaluation is free of side effects on arguments and on the model.  Statements only; axiom-free.
   [inplace_table] is regenerated from every .py file of the library on each run: one row per in-place
   operation (augmented assignment, item assignment, method ending in _, .data assignment, out=) with the
   origin of the written tensor as determined by the translator's alias analysis. *)
From Coq Require Import String List Bool.
From NF Require Import Gen.Tables Model.Tables Proofs.TablesP.
Import ListNotations.

(* every in-place write in the library targets a freshly allocated tensor, a call result / network output, or a
   non-tensor; writes to attributes happen only while constructing; writes to registered parameters or buffers
   only in constructors and at the two documented sites (BatchNorm running statistics under `if self.training`,
   ActNorm's data-dependent initialisation).  No row writes an argument of a public function. *)
Theorem C13_inplace_writes_are_local_or_documented : forallb inplace_ok inplace_table = true.
Proof. exact inplace_table_ok. Qed.
Print Assumptions C13_inplace_writes_are_local_or_documented.

(* in evaluation mode no row writes registered state at all *)
Theorem C13_evaluation_mode_writes_no_state :
  forallb (fun r => negb (eval_mode_writes_state r)) inplace_table = true.
Proof. exact eval_mode_writes_no_state. Qed.
Print Assumptions C13_evaluation_mode_writes_no_state.

(* what that buys, in a storage model with version counters: a call all of whose writes go to fresh storage
   leaves every argument and all state unchanged; an argument is untouched unless a write targets it;
   repeating the call sees the same state *)
Theorem C13_pure_calls_change_nothing : forall (ws : list target) (v : versions),
  forallb touches_nothing ws = true -> exec v ws = v /\ exec (exec v ws) ws = v.
Proof. intros ws v H. split; [apply exec_pure | apply repeat_call_same_state]; exact H. Qed.
Print Assumptions C13_pure_calls_change_nothing.

Theorem C13_argument_untouched_unless_written : forall (ws : list target) (i : nat) (v : versions),
  (forall t, In t ws -> t <> TArg i) -> fst (exec v ws) i = fst v i.
Proof. exact exec_arg_untouched. Qed.
Print Assumptions C13_argument_untouched_unless_written.

Example C13_table_is_not_empty : 100 <= length inplace_table.
Proof. vm_compute. repeat constructor. Qed.
