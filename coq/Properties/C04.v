(* C04 -- samples and densities of a flow agree, row by row.  PARTIAL: pairing, the density identity and the
   one-dimensional push-forward are proved; convergence of the empirical distribution is the law of large numbers
   applied to the random number generator's output (runtime, no probability library installed). *)
From Coq Require Import Reals List Arith.
From Coquelicot Require Import Coquelicot.
From NF Require Import Base.Ops Base.Rops Gen.Dist Model.Utils Model.FlowSample Proofs.UtilsP Proofs.FlowP.
Import ListNotations.
Local Open Scope nat_scope.

(* for every number of context rows k, every n and every noise draw: sample [i][j] is the transform's inverse of
   noise [i][j] under context row i (merge, repeat_rows, invert, split).  Axiom-free. *)
Theorem C04_sample_pairing : forall (ZT CT XT : Type) (tinv : ZT -> CT -> XT) (n : nat) (noise : list (list ZT)) (ctx : list CT),
  length noise = length ctx -> List.Forall (fun row => length row = n) noise ->
  flow_sample tinv n noise ctx = zip_with (fun row c => map (fun z => tinv z c) row) noise ctx.
Proof. exact @flow_sample_pairing. Qed.
Print Assumptions C04_sample_pairing.

(* repeat_rows puts the n copies of context row i at rows i*n .. i*n+n-1 (what the pairing rests on) *)
Theorem C04_repeat_rows_index : forall (A : Type) (rowlen rows n : nat) (l : list A) (i j : nat) (d : list A),
  length l = rowlen * rows -> j < n ->
  nth (i * n + j) (chunks rowlen (rows * n) (repeat_rows_data rowlen rows n l)) d = nth i (chunks rowlen rows l) d.
Proof. exact @repeat_rows_row_index. Qed.
Print Assumptions C04_repeat_rows_index.

Local Open Scope R_scope.
(* the log-probability returned with a sample is log_prob of that sample (expressions generated from flows/base.py),
   given the inverse contract of the transform (C02) *)
Theorem C04_returned_log_prob_is_log_prob_of_sample : forall (base_lp : R -> R) (z fwd_of_sample fwd_lad inv_lad : R),
  fwd_of_sample = z -> fwd_lad = - inv_lad ->
  flow_sample_log_prob Rops (base_lp z) inv_lad = flow_log_prob Rops (base_lp fwd_of_sample) fwd_lad.
Proof. exact sample_and_log_prob_consistent. Qed.
Print Assumptions C04_returned_log_prob_is_log_prob_of_sample.

(* inverting base noise through an increasing bijection g yields the distribution function Phi o g, whose derivative
   is g'(a) * phi(g a) = exp(log_prob a) *)
Theorem C04_pushforward_density_1d : forall (g ginv Phi phi : R -> R) (a dg : R),
  (forall x y, x <= y -> g x <= g y) -> (forall x y, g x <= g y -> x <= y) -> (forall z, g (ginv z) = z) ->
  is_derive g a dg -> is_derive Phi (g a) (phi (g a)) ->
  (forall z, ginv z <= a <-> z <= g a) /\ is_derive (fun t => Phi (g t)) a (dg * phi (g a)).
Proof. exact pushforward_cdf_1d. Qed.
Theorem C04_density_is_exp_log_prob : forall phi_ga dg : R, 0 < phi_ga -> 0 < dg ->
  exp (flow_log_prob Rops (ln phi_ga) (ln dg)) = dg * phi_ga.
Proof. exact density_is_exp_log_prob. Qed.
Print Assumptions C04_pushforward_density_1d.
Print Assumptions C04_density_is_exp_log_prob.

(* as regenerated from nflows/flows/base.py: in _log_prob, _sample and sample_and_log_prob every call into the base distribution
   and into the transform receives the EMBEDDED context (or, for a base distribution that takes no context, none at all) *)
Theorem C04_every_call_gets_the_embedded_context : flow_every_call_gets_embedded_context = true.
Proof. reflexivity. Qed.
Print Assumptions C04_every_call_gets_the_embedded_context.

(* ---- the sampling paths REGENERATED from the source (Gen/FlowRows.v: Flow._sample, Flow.sample_and_log_prob and
   ConditionalDiagonalNormal._sample as programs over row batches) are the model, hence pair draws with context rows ---- *)
From NF Require Import Model.RowLayout Gen.FlowRows Proofs.RowLayoutP.

Theorem C04_generated_flow_sample_is_the_model : forall (ZT CT XT : Type) (inv : ZT -> CT -> XT) (n : nat)
  (noise : list (list ZT)) (ctx : list CT),
  (0 < n)%nat -> length noise = length ctx -> List.Forall (fun row => length row = n) noise ->
  flow_sample_gen inv n noise ctx = flow_sample inv n noise ctx /\
  (* ... and therefore sample [i][j] is the inverse of noise [i][j] under context row i *)
  flow_sample_gen inv n noise ctx = zip_with (fun row c => map (fun z => inv z c) row) noise ctx.
Proof.
  intros ZT CT XT inv n noise ctx Hn Hl Hf.
  assert (E : flow_sample_gen inv n noise ctx = flow_sample inv n noise ctx) by (apply (flow_program_is_the_model inv n noise ctx Hn Hl Hf)).
  split; [exact E|]. rewrite E. apply flow_sample_pairing; assumption.
Qed.
Print Assumptions C04_generated_flow_sample_is_the_model.

(* sample_and_log_prob runs the same pairing for the samples and for the inverse's log-abs-dets *)
Theorem C04_generated_sample_and_log_prob_pairs_both : forall (ZT CT XT LT BT : Type) (inv : ZT -> CT -> XT) (invlad : ZT -> CT -> LT)
  (n : nat) (noise : list (list ZT)) (blp : BT) (ctx : list CT),
  (0 < n)%nat -> length noise = length ctx -> List.Forall (fun row => length row = n) noise ->
  flow_sample_and_log_prob_gen inv invlad n noise blp ctx
  = (zip_with (fun row c => map (fun z => inv z c) row) noise ctx,
     (blp, zip_with (fun row c => map (fun z => invlad z c) row) noise ctx)).
Proof.
  intros ZT CT XT LT BT inv invlad n noise blp ctx Hn Hl Hf. unfold flow_sample_and_log_prob_gen. cbv zeta.
  pose proof (flow_program_is_the_model inv n noise ctx Hn Hl Hf) as E1.
  pose proof (flow_program_is_the_model invlad n noise ctx Hn Hl Hf) as E2.
  unfold flow_program in E1, E2. cbv zeta in E1, E2. rewrite E1, E2. rewrite !flow_sample_pairing by assumption. reflexivity.
Qed.
Print Assumptions C04_generated_sample_and_log_prob_pairs_both.

(* ConditionalDiagonalNormal._sample: draw j of block i is mean_i + exp(log_std_i) * noise_{i n + j}: the parameters of context
   row i, never another row's *)
Theorem C04_generated_conditional_normal_sampling_pairs_rows : forall (T : Type) (O : ops T) (means log_stds noise : list (list T))
  (k n i j : nat),
  length means = k -> length log_stds = k -> length noise = (k * n)%nat -> (i < k)%nat -> (j < n)%nat ->
  nth j (nth i (cdn_sample_gen O means log_stds noise k n) []) []
  = zip_with (o_add O) (nth i means []) (zip_with (o_mul O) (map (o_exp O) (nth i log_stds [])) (nth (i * n + j)%nat noise [])).
Proof.
  intros T O means log_stds noise k n i j Hm Hs Hz Hi Hj.
  change (cdn_sample_gen O means log_stds noise k n) with (cdn_program (o_add O) (o_mul O) means (rows_map (o_exp O) log_stds) noise k n).
  rewrite cdn_program_pairing; try assumption.
  - unfold rows_map. f_equal. f_equal. rewrite (nth_indep _ [] (map (o_exp O) [])) by (rewrite map_length, Hs; exact Hi).
    apply map_nth.
  - unfold rows_map. rewrite map_length. exact Hs.
Qed.
Print Assumptions C04_generated_conditional_normal_sampling_pairs_rows.
