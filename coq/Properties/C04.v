(* C04 -- samples and densities of a flow agree, row by row.  PARTIAL: pairing, the density identity and the
   one-dimensional push-forward are proved; convergence of the empirical distribution is the law of large numbers
   applied to the random number generator's output (runtime, no probability library installed). *)
From Coq Require Import Reals List Arith.
From Coquelicot Require Import Coquelicot.
From NF Require Import Base.Ops Base.Rops Gen.Dist Model.Utils Model.FlowSample Proofs.UtilsP Proofs.FlowP.
Import ListNotations.
Local Open Scope nat_scope.

(* for every number of context rows k, every n and every noise draw: sample [i][j] is the transform's inverse of
   noise [i][j] under context row i (merge, repeat_rows, invert, split).  Axiom-free. *)
Theorem C04_sample_pairing : forall (ZT CT XT : Type) (tinv : ZT -> CT -> XT) (n : nat) (noise : list (list ZT)) (ctx : list CT),
  length noise = length ctx -> List.Forall (fun row => length row = n) noise ->
  flow_sample tinv n noise ctx = zip_with (fun row c => map (fun z => tinv z c) row) noise ctx.
Proof. exact @flow_sample_pairing. Qed.
Print Assumptions C04_sample_pairing.

(* repeat_rows puts the n copies of context row i at rows i*n .. i*n+n-1 (what the pairing rests on) *)
Theorem C04_repeat_rows_index : forall (A : Type) (rowlen rows n : nat) (l : list A) (i j : nat) (d : list A),
  length l = rowlen * rows -> j < n ->
  nth (i * n + j) (chunks rowlen (rows * n) (repeat_rows_data rowlen rows n l)) d = nth i (chunks rowlen rows l) d.
Proof. exact @repeat_rows_row_index. Qed.
Print Assumptions C04_repeat_rows_index.

Local Open Scope R_scope.
(* the log-probability returned with a sample is log_prob of that sample (expressions generated from flows/base.py),
   given the inverse contract of the transform (C02) *)
Theorem C04_returned_log_prob_is_log_prob_of_sample : forall (base_lp : R -> R) (z fwd_of_sample fwd_lad inv_lad : R),
  fwd_of_sample = z -> fwd_lad = - inv_lad ->
  flow_sample_log_prob Rops (base_lp z) inv_lad = flow_log_prob Rops (base_lp fwd_of_sample) fwd_lad.
Proof. exact sample_and_log_prob_consistent. Qed.
Print Assumptions C04_returned_log_prob_is_log_prob_of_sample.

(* inverting base noise through an increasing bijection g yields the distribution function Phi o g, whose derivative
   is g'(a) * phi(g a) = exp(log_prob a) *)
Theorem C04_pushforward_density_1d : forall (g ginv Phi phi : R -> R) (a dg : R),
  (forall x y, x <= y -> g x <= g y) -> (forall x y, g x <= g y -> x <= y) -> (forall z, g (ginv z) = z) ->
  is_derive g a dg -> is_derive Phi (g a) (phi (g a)) ->
  (forall z, ginv z <= a <-> z <= g a) /\ is_derive (fun t => Phi (g t)) a (dg * phi (g a)).
Proof. exact pushforward_cdf_1d. Qed.
Theorem C04_density_is_exp_log_prob : forall phi_ga dg : R, 0 < phi_ga -> 0 < dg ->
  exp (flow_log_prob Rops (ln phi_ga) (ln dg)) = dg * phi_ga.
Proof. exact density_is_exp_log_prob. Qed.
Print Assumptions C04_pushforward_density_1d.
Print Assumptions C04_density_is_exp_log_prob.

(* as regenerated from nflows/flows/base.py: in _log_prob, _sample and sample_and_log_prob every call into the base distribution
   and into the transform receives the EMBEDDED context (or, for a base distribution that takes no context, none at all) *)
Theorem C04_every_call_gets_the_embedded_context : flow_every_call_gets_embedded_context = true.
Proof. reflexivity. Qed.
Print Assumptions C04_every_call_gets_the_embedded_context.
