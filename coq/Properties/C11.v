(* C11 -- linear-family accessors all describe one and the same affine map.  Statements only
   (matrices over R, mathcomp).  L, U, R, D, the reflection vectors are the matrices the constructors
   build from the parameter vectors (unit lower-triangular, upper-triangular with the stated positive
   diagonal, ...); that construction is the executable model compared with the code. *)
From Coq Require Import Reals.
From mathcomp Require Import all_ssreflect all_fingroup all_algebra.
From NF Require Import Base.Rstruct Proofs.DetP Proofs.LinearP.
Set Implicit Arguments. Unset Strict Implicit. Unset Printing Implicit Defensive.
Local Open Scope ring_scope.

(* LU: logabsdet() = sum log(upper diagonal) = log |det (L U)|, for every n (n = 1 included) *)
Theorem C11_lu_logabsdet : forall n (L U : 'M[R]_n),
  (forall i j : 'I_n, (i < j)%N -> L i j = 0) -> (forall i, L i i = 1) ->
  (forall i j : 'I_n, (j < i)%N -> U i j = 0) -> (forall i, Rlt 0%R (U i i)) ->
  Rlt 0%R (\det (L *m U)) /\ ln (Rabs (\det (L *m U))) = \sum_(i < n) ln (U i i).
Proof. move=> n L U H1 H2 H3 H4. exact: lu_logabsdet. Qed.
Print Assumptions C11_lu_logabsdet.

(* forward is x |-> W x + b with W = weight() = L U; weight_inverse() is the inverse of W; the inverse pass undoes forward *)
Theorem C11_lu_affine_and_inverse : forall n (L U Li Ui : 'M[R]_n) (x b : 'cV[R]_n),
  Li *m L = 1%:M -> Ui *m U = 1%:M ->
  L *m (U *m x) + b = (L *m U) *m x + b /\ (Ui *m Li) *m (L *m U) = 1%:M /\
  Ui *m (Li *m (((L *m U) *m x + b) - b)) = x.
Proof.
  move=> n L U Li Ui x b HL HU. split; [exact: lu_forward_is_affine|]. split; [exact: lu_weight_inverse | exact: lu_inverse_pass].
Qed.
Print Assumptions C11_lu_affine_and_inverse.

(* a Householder sequence - any number of reflections, any non-zero vectors - is orthogonal with log|det| = 0 *)
Theorem C11_householder_sequence_orthogonal : forall n (cvs : seq (R * 'cV[R]_n)),
  (forall cv, cv \in cvs -> cv.1 * (cv.2^T *m cv.2) 0 0 = 2%:R) ->
  let Q := foldr (fun cv acc => hh cv.1 cv.2 *m acc) 1%:M cvs in
  Q^T *m Q = 1%:M /\ ln (Rabs (\det Q)) = 0%R.
Proof.
  move=> n cvs H Q. have HQ : orth Q by exact: hh_sequence_orthogonal. split; [exact: HQ | exact: orth_logabsdet].
Qed.
Print Assumptions C11_householder_sequence_orthogonal.

Theorem C11_householder_reflection_involutive : forall n (c : R) (v : 'cV[R]_n),
  c * (v^T *m v) 0 0 = 2%:R -> hh c v *m hh c v = 1%:M /\ (hh c v)^T = hh c v.
Proof. move=> n c v H. split; [exact: hh_involutive | exact: hh_sym]. Qed.
Print Assumptions C11_householder_reflection_involutive.

(* QR and SVD: logabsdet() is log |det W| *)
Theorem C11_qr_logabsdet : forall n (Q Rm Ri : 'M[R]_n),
  orth Q -> (forall i j : 'I_n, (j < i)%N -> Rm i j = 0) -> (forall i, Rlt 0%R (Rm i i)) -> Ri *m Rm = 1%:M ->
  ln (Rabs (\det (Q *m Rm))) = \sum_(i < n) ln (Rm i i) /\ (Ri *m Q^T) *m (Q *m Rm) = 1%:M.
Proof. move=> n Q Rm Ri HQ H1 H2 H3. split; [exact: qr_logabsdet | exact: qr_weight_inverse]. Qed.
Print Assumptions C11_qr_logabsdet.

Theorem C11_svd_logabsdet : forall n (U V D : 'M[R]_n),
  orth U -> orth V -> (forall i j : 'I_n, i != j -> D i j = 0) -> (forall i, Rlt 0%R (D i i)) ->
  ln (Rabs (\det (U *m D *m V^T))) = \sum_(i < n) ln (D i i).
Proof. move=> n U V D. exact: svd_logabsdet. Qed.
Print Assumptions C11_svd_logabsdet.
(* NOT PROVED: that the list-of-rows construction from the parameter vectors yields matrices with these shapes
   (checked by the correspondence), NaiveLinear's reliance on torch.slogdet / lu_solve (contracts), and the
   constructor claim about initial reflection vectors (searched on the implementation). *)
