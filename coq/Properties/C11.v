(* C11 -- linear-family accessors all describe one and the same affine map.  Statements only
   (matrices over R, mathcomp).  L, U, R, D, the reflection vectors are the matrices the constructors
   build from the parameter vectors (unit lower-triangular, upper-triangular with the stated positive
   diagonal, ...); that construction is the executable model compared with the code. *)
From Coq Require Import Reals.
From mathcomp Require Import all_ssreflect all_fingroup all_algebra.
From NF Require Import Base.Rstruct Proofs.DetP Proofs.LinearP.
Set Implicit Arguments. Unset Strict Implicit. Unset Printing Implicit Defensive.
Local Open Scope ring_scope.

(* LU: logabsdet() = sum log(upper diagonal) = log |det (L U)|, for every n (n = 1 included) *)
Theorem C11_lu_logabsdet : forall n (L U : 'M[R]_n),
  (forall i j : 'I_n, (i < j)%N -> L i j = 0) -> (forall i, L i i = 1) ->
  (forall i j : 'I_n, (j < i)%N -> U i j = 0) -> (forall i, Rlt 0%R (U i i)) ->
  Rlt 0%R (\det (L *m U)) /\ ln (Rabs (\det (L *m U))) = \sum_(i < n) ln (U i i).
Proof. move=> n L U H1 H2 H3 H4. exact: lu_logabsdet. Qed.
Print Assumptions C11_lu_logabsdet.

(* forward is x |-> W x + b with W = weight() = L U; weight_inverse() is the inverse of W; the inverse pass undoes forward *)
Theorem C11_lu_affine_and_inverse : forall n (L U Li Ui : 'M[R]_n) (x b : 'cV[R]_n),
  Li *m L = 1%:M -> Ui *m U = 1%:M ->
  L *m (U *m x) + b = (L *m U) *m x + b /\ (Ui *m Li) *m (L *m U) = 1%:M /\
  Ui *m (Li *m (((L *m U) *m x + b) - b)) = x.
Proof.
  move=> n L U Li Ui x b HL HU. split; [exact: lu_forward_is_affine|]. split; [exact: lu_weight_inverse | exact: lu_inverse_pass].
Qed.
Print Assumptions C11_lu_affine_and_inverse.

(* a Householder sequence - any number of reflections, any non-zero vectors - is orthogonal with log|det| = 0 *)
Theorem C11_householder_sequence_orthogonal : forall n (cvs : seq (R * 'cV[R]_n)),
  (forall cv, cv \in cvs -> cv.1 * (cv.2^T *m cv.2) 0 0 = 2%:R) ->
  let Q := foldr (fun cv acc => hh cv.1 cv.2 *m acc) 1%:M cvs in
  Q^T *m Q = 1%:M /\ ln (Rabs (\det Q)) = 0%R.
Proof.
  move=> n cvs H Q. have HQ : orth Q by exact: hh_sequence_orthogonal. split; [exact: HQ | exact: orth_logabsdet].
Qed.
Print Assumptions C11_householder_sequence_orthogonal.

Theorem C11_householder_reflection_involutive : forall n (c : R) (v : 'cV[R]_n),
  c * (v^T *m v) 0 0 = 2%:R -> hh c v *m hh c v = 1%:M /\ (hh c v)^T = hh c v.
Proof. move=> n c v H. split; [exact: hh_involutive | exact: hh_sym]. Qed.
Print Assumptions C11_householder_reflection_involutive.

(* QR and SVD: logabsdet() is log |det W| *)
Theorem C11_qr_logabsdet : forall n (Q Rm Ri : 'M[R]_n),
  orth Q -> (forall i j : 'I_n, (j < i)%N -> Rm i j = 0) -> (forall i, Rlt 0%R (Rm i i)) -> Ri *m Rm = 1%:M ->
  ln (Rabs (\det (Q *m Rm))) = \sum_(i < n) ln (Rm i i) /\ (Ri *m Q^T) *m (Q *m Rm) = 1%:M.
Proof. move=> n Q Rm Ri HQ H1 H2 H3. split; [exact: qr_logabsdet | exact: qr_weight_inverse]. Qed.
Print Assumptions C11_qr_logabsdet.

Theorem C11_svd_logabsdet : forall n (U V D : 'M[R]_n),
  orth U -> orth V -> (forall i j : 'I_n, i != j -> D i j = 0) -> (forall i, Rlt 0%R (D i i)) ->
  ln (Rabs (\det (U *m D *m V^T))) = \sum_(i < n) ln (D i i).
Proof. move=> n U V D. exact: svd_logabsdet. Qed.
Print Assumptions C11_svd_logabsdet.
(* NOT PROVED: that the list-of-rows construction from the parameter vectors yields matrices with these shapes
   (checked by the correspondence), NaiveLinear's reliance on torch.slogdet / lu_solve (contracts), and the
   constructor claim about initial reflection vectors (searched on the implementation). *)

(* ================================================================================================================
   The same statements about the method bodies REGENERATED from lu.py, qr.py, svd.py and linear.py on every run
   (Gen/LinearFamily.v: weight, weight_inverse, logabsdet, forward_no_cache, inverse_no_cache and the combined accessor that
   fills the cache, as matrix expression trees; Proofs/MatExprP.v gives them their meaning: a batch is the matrix of its rows,
   solve_triangular reads the triangle / unit diagonal its flags say, a Householder product acts on rows).  L, U, d, W, Q are
   what the constructors build (their shape is tied to the code by the extracted list-of-rows correspondence). *)
From NF Require Import Base.Rfield Model.MatExpr Gen.LinearFamily Proofs.MatExprP.

Theorem C11_generated_LULinear : forall (n : nat) (L U : 'M[R]_n) (b : 'rV[R]_n),
  (forall i j : 'I_n, (i < j)%N -> L i j = 0) -> (forall i, L i i = 1) ->
  (forall i j : 'I_n, (j < i)%N -> U i j = 0) -> (forall i, Rlt 0%R (U i i)) ->
  forall X : 'M[R]_n,
  let ev := eval L U 0 0 0 0 b in let sv := seval (0 : 'M[R]_n) lu_logabsdet (fun i => U i i) in
  ev X lu_weight = L *m U /\ ev X lu_weight_inverse *m ev X lu_weight = 1%:M /\
  ev X lu_forward_no_cache.1 = X *m (L *m U)^T + rows_of b /\
  ev (ev X lu_forward_no_cache.1) lu_inverse_no_cache.1 = X /\
  sv lu_logabsdet = ln (Rabs (\det (ev X lu_weight))) /\ sv lu_forward_no_cache.2 = sv lu_logabsdet /\
  sv lu_inverse_no_cache.2 = - sv lu_logabsdet.
Proof.
  move=> n L U b H1 H2 H3 H4 X /=. split; first exact: lu_weight_is_LU. split; first exact: lu_weight_inverse_inverts.
  split; first exact: lu_forward_is_affine. split; first exact: lu_inverse_undoes_forward.
  exact: (lu_logabsdet_is_log_det b H1 H2 H3 H4 X).
Qed.
Print Assumptions C11_generated_LULinear.

Theorem C11_generated_QRLinear : forall (n : nat) (U Q : 'M[R]_n) (b : 'rV[R]_n),
  (forall i j : 'I_n, (j < i)%N -> U i j = 0) -> (forall i, Rlt 0%R (U i i)) -> Q^T *m Q = 1%:M ->
  forall X : 'M[R]_n,
  let ev := eval 0 U 0 Q 0 0 b in let sv := seval (0 : 'M[R]_n) qr_logabsdet (fun i => U i i) in
  ev X qr_weight = Q *m U /\ ev X qr_weight_inverse *m ev X qr_weight = 1%:M /\
  ev X qr_forward_no_cache.1 = X *m (Q *m U)^T + rows_of b /\
  ev (ev X qr_forward_no_cache.1) qr_inverse_no_cache.1 = X /\
  sv qr_logabsdet = ln (Rabs (\det (ev X qr_weight))) /\ sv qr_forward_no_cache.2 = sv qr_logabsdet /\
  sv qr_inverse_no_cache.2 = - sv qr_logabsdet.
Proof.
  move=> n U Q b H1 H2 H3 X /=. split; first exact: qr_weight_is_QU. split; first exact: qr_weight_inverse_inverts.
  split; first exact: qr_forward_is_affine. split; first exact: qr_inverse_undoes_forward.
  exact: (qr_logabsdet_is_log_det b H1 H2 H3 X).
Qed.
Print Assumptions C11_generated_QRLinear.

Theorem C11_generated_SVDLinear : forall (n : nat) (Q1 Q2 : 'M[R]_n) (d b : 'rV[R]_n),
  (forall i, Rlt 0%R (d 0 i)) -> Q1^T *m Q1 = 1%:M -> Q2^T *m Q2 = 1%:M ->
  forall X : 'M[R]_n,
  let ev := eval 0 0 0 Q1 Q2 d b in let sv := seval (0 : 'M[R]_n) svd_logabsdet (fun i => d 0 i) in
  ev X svd_weight = Q1 *m diag_mx d *m Q2 /\ ev X svd_weight_inverse *m ev X svd_weight = 1%:M /\
  ev X svd_forward_no_cache.1 = X *m (Q1 *m diag_mx d *m Q2)^T + rows_of b /\
  ev (ev X svd_forward_no_cache.1) svd_inverse_no_cache.1 = X /\
  sv svd_logabsdet = ln (Rabs (\det (ev X svd_weight))) /\ sv svd_forward_no_cache.2 = sv svd_logabsdet /\
  sv svd_inverse_no_cache.2 = - sv svd_logabsdet.
Proof.
  move=> n Q1 Q2 d b H1 H2 H3 X /=. split; first exact: svd_weight_is_Q1DQ2. split; first exact: svd_weight_inverse_inverts.
  split; first exact: svd_forward_is_affine. split; first exact: svd_inverse_undoes_forward.
  exact: (svd_logabsdet_is_log_det b H1 H2 H3 X).
Qed.
Print Assumptions C11_generated_SVDLinear.

Theorem C11_generated_NaiveLinear : forall (n : nat) (W : 'M[R]_n) (b : 'rV[R]_n), W \in unitmx ->
  forall X : 'M[R]_n,
  let ev := eval 0 0 W 0 0 0 b in let sv := seval W naive_logabsdet (fun _ => 0) in
  ev X naive_weight_inverse *m ev X naive_weight = 1%:M /\
  ev X naive_forward_no_cache.1 = X *m W^T + rows_of b /\
  ev (ev X naive_forward_no_cache.1) naive_inverse_no_cache.1 = X /\
  sv naive_logabsdet = ln (Rabs (\det (ev X naive_weight))) /\ sv naive_forward_no_cache.2 = sv naive_logabsdet /\
  sv naive_inverse_no_cache.2 = - sv naive_logabsdet /\
  sv naive_weight_inverse_and_logabsdet.2 = sv naive_logabsdet /\
  ev X naive_weight_inverse_and_logabsdet.1 = ev X naive_weight_inverse /\
  base_combined_accessors_delegate = true.
Proof.
  move=> n W b HW X /=. split; first exact: naive_weight_inverse_inverts. split; first by [].
  split; first exact: naive_inverse_undoes_forward. by [].
Qed.
Print Assumptions C11_generated_NaiveLinear.
