(* C14 -- normalisation layers follow their documented life-cycle over every history.
   Statements only.  The ActNorm life-cycle theorems hold over any carrier and are
   axiom-free; the two numerical statements are over the reals. *)
From Coq Require Import Reals ZArith List Bool.
From NF Require Import Base.Ops Base.Rops Base.Result Gen.Norm Model.Norm Proofs.NormP.
Import ListNotations.
Local Open Scope nat_scope.

(* ActNorm: before initialisation the flag can only be set by a training-mode forward pass *)
Theorem C14_actnorm_initialised_only_by_training_forward :
  forall (T : Type) (O : ops T) (s : an_state) (o : nop T),
    an_init s = false ->
    (an_init (fst (an_step O s o)) = true <-> (exists b, o = NForward b) /\ an_training s = true).
Proof. intros T O. exact (an_init_iff O). Qed.
Print Assumptions C14_actnorm_initialised_only_by_training_forward.

(* ... and after it nothing (mode switches, evaluation calls, inverses, further training
   batches, save + load into a fresh instance) ever changes flag, log-scale or shift *)
Theorem C14_actnorm_never_reinitialises :
  forall (T : Type) (O : ops T) (ops : list (nop T)) (s : an_state),
    an_init s = true -> an_params (an_run O s ops) = an_params s.
Proof. intros T O. exact (an_run_frozen O). Qed.
Print Assumptions C14_actnorm_never_reinitialises.

(* over every history from a freshly constructed layer: the parameters are those computed by
   the FIRST training-mode forward pass *)
Theorem C14_actnorm_initialises_exactly_once :
  forall (T : Type) (O : ops T) (ops1 : list (nop T)) (b : list T) (ops2 : list (nop T)),
    an_init (an_run O (an_fresh O) ops1) = false ->
    an_training (an_run O (an_fresh O) ops1) = true ->
    let s1 := fst (an_step O (an_run O (an_fresh O) ops1) (NForward b)) in
    an_init s1 = true /\
    an_params (an_run O (an_fresh O) (ops1 ++ NForward b :: ops2)) = an_params s1.
Proof. intros T O. exact (an_initialises_exactly_once O). Qed.
Print Assumptions C14_actnorm_initialises_exactly_once.

Theorem C14_actnorm_untouched_until_initialised :
  forall (T : Type) (O : ops T) (ops : list (nop T)),
    an_init (an_run O (an_fresh O) ops) = false ->
    an_log_scale (an_run O (an_fresh O) ops) = o_zero O /\ an_shift (an_run O (an_fresh O) ops) = o_zero O.
Proof. intros T O. exact (an_uninitialised_is_fresh O). Qed.
Print Assumptions C14_actnorm_untouched_until_initialised.

(* the initialising batch comes out with zero mean and unit variance per feature / channel *)
Theorem C14_actnorm_initialising_batch_is_normalised : forall b : list R,
  2 <= length b -> (0 < vvar Rops b)%R ->
  let s1 := fst (an_step Rops (an_fresh Rops) (NForward b)) in
  let y := match snd (an_step Rops (an_fresh Rops) (NForward b)) with Ok (y, _) => y | _ => [] end in
  an_init s1 = true /\ vmean Rops y = 0%R /\ vvar Rops y = 1%R.
Proof. exact an_init_normalises. Qed.
Print Assumptions C14_actnorm_initialising_batch_is_normalised.

(* BatchNorm: running statistics are written by training-mode forward passes only, by the momentum rule *)
Theorem C14_batchnorm_running_statistics : forall (eps momentum : R) (s : bn_state) (o : nop R),
  (forall b, o = NForward b -> bn_training s = true ->
     bn_stats (fst (bn_step Rops eps momentum s o))
     = ((1 - momentum) * bn_rm s + momentum * vmean Rops b, (1 - momentum) * bn_rv s + momentum * vvar Rops b)%R) /\
  ((forall b, o <> NForward b) \/ bn_training s = false ->
     bn_stats (fst (bn_step Rops eps momentum s o)) = bn_stats s).
Proof. exact bn_running_stats. Qed.
Print Assumptions C14_batchnorm_running_statistics.

(* batch statistics in training mode, running statistics in evaluation mode *)
Theorem C14_batchnorm_statistics_used : forall (eps momentum : R) (s : bn_state) (b : list R),
  snd (bn_step Rops eps momentum s (NForward b)) =
  let w := bn_weight Rops (bn_uw s) eps in
  let '(mean, var) := if bn_training s then (vmean Rops b, vvar Rops b) else (bn_rm s, bn_rv s) in
  Ok (map (fun x => w * ((x - mean) / sqrt (var + eps)) + bn_bias s)%R b, (ln w - (1 / 2) * ln (var + eps))%R).
Proof. exact bn_forward_statistics. Qed.
Print Assumptions C14_batchnorm_statistics_used.

(* the inverse is offered in evaluation mode only, and there it undoes the forward pass *)
Theorem C14_batchnorm_inverse_only_in_eval : forall (eps momentum : R) (s : bn_state) (b : list R),
  (bn_training s = true -> snd (bn_step Rops eps momentum s (NInverse b)) = InverseNotAvail) /\
  (bn_training s = false -> (0 < bn_weight Rops (bn_uw s) eps)%R -> (0 < bn_rv s + eps)%R ->
   match snd (bn_step Rops eps momentum s (NForward b)) with
   | Ok (y, ld) => match snd (bn_step Rops eps momentum s (NInverse y)) with
                   | Ok (x, ld') => x = b /\ (ld + ld' = 0)%R
                   | _ => False
                   end
   | _ => False
   end).
Proof. exact bn_inverse_contract. Qed.
Print Assumptions C14_batchnorm_inverse_only_in_eval.

Example C14_hypotheses_satisfiable :
  2 <= length [1; 2; 4]%R /\ (0 < vvar Rops [1; 2; 4])%R.
Proof.
  split; [cbn; repeat constructor|]. unfold vvar, vmean, rsum, ofnat, o_sq. cbn. Lra.lra.
Qed.
