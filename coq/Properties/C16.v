(* C16 -- log_prob and transforms are differentiable with correct gradients.  Statements only.
   PARTIAL by nature: that torch.autograd returns the derivative of the composed real function is the autograd
   engine's contract (trusted); what is proved is that the formulas are differentiable (in inputs AND parameters,
   with finite derivatives) and that nothing in the source cuts or falsifies the gradient path. *)
From Coq Require Import Reals String List Bool.
From Coquelicot Require Import Coquelicot.
From NF Require Import Base.Ops Base.Rops Gen.Nonlin Gen.Norm Gen.SplineRQ Gen.Tables Model.Tables
  Proofs.TablesP Proofs.NonlinP Proofs.GradP Proofs.SplineRQP.
Local Open Scope R_scope.

(* every detach / no_grad / .data / .item() in the library sits in a constructor, in sampling code, in the two
   documented statistics updates (BatchNorm running statistics, ActNorm initialisation) or in a helper that
   returns numpy: none lies on a path from a parameter, input or context to a returned differentiable value *)
Theorem C16_no_gradient_blocking_on_evaluation_paths : forallb grad_ok grad_table = true.
Proof. exact grad_table_ok. Qed.
Print Assumptions C16_no_gradient_blocking_on_evaluation_paths.

(* in-place writes never hit a tensor that an earlier differentiable operation needs: they target fresh tensors,
   call results or non-tensors only (shared with C13) *)
Theorem C16_inplace_writes_are_autograd_safe : forallb inplace_ok inplace_table = true.
Proof. exact inplace_table_ok. Qed.
Print Assumptions C16_inplace_writes_are_autograd_safe.

(* differentiability in the parameters, with the derivative: affine kernel, ActNorm, learned temperature *)
Theorem C16_affine_kernel_parameter_derivatives : forall a b x : R,
  is_derive (fun s : R => x * s + b) a x /\ is_derive (fun t : R => x * a + t) b 1 /\ is_derive (fun v : R => v * a + b) x a.
Proof. exact affine_param_derivatives. Qed.
Theorem C16_actnorm_parameter_derivatives : forall ls sh x : R,
  is_derive (fun l => an_forward_out Rops (an_scale Rops l) sh x) ls (exp ls * x) /\
  is_derive (fun s => an_forward_out Rops (an_scale Rops ls) s x) sh 1.
Proof. exact actnorm_param_derivatives. Qed.
Theorem C16_sigmoid_temperature_derivative : forall T eps x : R,
  is_derive (fun t => sigm_fwd_ret0 Rops x eps t) T (x * (sig (T * x) * (1 - sig (T * x)))).
Proof. exact sigmoid_temperature_derivative. Qed.
Print Assumptions C16_affine_kernel_parameter_derivatives.
Print Assumptions C16_actnorm_parameter_derivatives.
Print Assumptions C16_sigmoid_temperature_derivative.

(* rational-quadratic bin: differentiable in the input everywhere on the bin (with the derivative whose log is
   returned, C01) and in the knot derivatives wherever the denominator is positive, which den_pos shows for the
   whole bin *)
Theorem C16_rq_bin_differentiable : forall xk w yk h d0 d1 x : R, 0 < w -> 0 < h -> 0 < d0 -> 0 < d1 ->
  xk <= x <= xk + w ->
  ex_derive (fwd xk w yk h d0 d1) x /\
  ex_derive (fun d => rq_fwd_ret0 Rops x xk w yk (h / w) d d1 h) d0 /\
  ex_derive (fun d => rq_fwd_ret0 Rops x xk w yk (h / w) d0 d h) d1.
Proof.
  intros xk w yk h d0 d1 x Hw Hh H0 H1 Hx.
  pose proof (den_pos w h d0 d1 Hw Hh H0 H1 _ (theta_range xk w Hw x Hx)) as Hd. unfold den, theta in Hd.
  split; [eexists; apply fwd_derive; assumption|].
  split; [apply rq_output_differentiable_in_d0 | apply rq_output_differentiable_in_d1]; exact Hd.
Qed.
Print Assumptions C16_rq_bin_differentiable.
