(* C17 -- out-of-domain inputs are rejected, in-domain inputs never fail.  Statements only. *)
From Coq Require Import Reals ZArith List Bool.
From NF Require Import Base.Ops Base.Rops Base.Result Gen.Utils Gen.Nonlin Gen.SplineRQ Gen.SplineLinear Gen.SplineQuadratic
  Gen.SplineCubic Model.Utils Model.Nonlin Model.SplineRQ Proofs.DomainP Proofs.SplineTails Proofs.UtilsR.
Import ListNotations.
Local Open Scope nat_scope.

(* exponential / tanh / sigmoid (logit) / Cauchy inverses: the library's domain error exactly
   outside the domain (open for exp and tanh, closed [0,1] for sigmoid and Cauchy), a value inside;
   forward passes and LogTanh accept every real *)
Theorem C17_restricted_domains : forall x : R,
  (exp_t Rops true x = OutsideDomain <-> x <= 0)%R /\
  (tanh_t Rops true x = OutsideDomain <-> x <= -1 \/ 1 <= x)%R /\
  (forall T eps, sigmoid_t Rops T eps true x = OutsideDomain <-> x < 0 \/ 1 < x)%R /\
  (cauchy_t Rops true x = OutsideDomain <-> x < 0 \/ 1 < x)%R /\
  (forall inv', is_ok (exp_t Rops false x) = true /\ is_ok (tanh_t Rops false x) = true /\
                is_ok (cauchy_t Rops false x) = true /\ forall c, is_ok (logtanh_t Rops c inv' x) = true).
Proof. exact restricted_domains. Qed.
Print Assumptions C17_restricted_domains.

(* the sigmoid inverse at the end points 0 and 1 is finite: after the clamp both logarithms
   have arguments bounded away from zero *)
Theorem C17_sigmoid_inverse_end_points : forall eps y : R,
  (0 < eps)%R -> (eps < 1 / 2)%R -> (0 <= y <= 1)%R ->
  let c := o_clamp Rops y eps (1 - eps)%R in (eps <= c <= 1 - eps)%R /\ (0 < c)%R /\ (0 < 1 - c)%R.
Proof. exact sigmoid_inverse_end_points. Qed.
Print Assumptions C17_sigmoid_inverse_end_points.

(* bounded splines, both directions: rejected iff outside the closed interval of that direction *)
Theorem C17_spline_guards : forall (x lo hi : R) (inv : bool) (l r b t : R),
  ((rq_rejects Rops x x lo hi = true <-> x < lo \/ hi < x) /\ (lin_rejects Rops x x lo hi = true <-> x < lo \/ hi < x) /\
   (quad_rejects Rops x x lo hi = true <-> x < lo \/ hi < x) /\ (cub_rejects Rops x x lo hi = true <-> x < lo \/ hi < x))%R /\
  (rq_bounds inv l r b t = (if inv then (b, t) else (l, r)) /\ lin_bounds inv l r b t = (if inv then (b, t) else (l, r)) /\
   quad_bounds inv l r b t = (if inv then (b, t) else (l, r)) /\ cub_bounds inv l r b t = (if inv then (b, t) else (l, r))).
Proof. intros. split; [apply rejects_iff | apply bounds_direction]. Qed.
Print Assumptions C17_spline_guards.

(* values exactly on a tail bound go to the spline, values beyond it to the identity *)
Theorem C17_tail_bound_is_inside : forall x B : R,
  (rq_inside_tails Rops x B = true <-> - B <= x <= B)%R /\ (lin_inside_tails Rops x B = true <-> - B <= x <= B)%R /\
  (quad_inside_tails Rops x B = true <-> - B <= x <= B)%R /\ (cub_inside_tails Rops x B = true <-> - B <= x <= B)%R.
Proof.
  intros x B. split; [apply rq_inside_iff|]. split; [apply lin_inside_iff|]. split; [apply quad_inside_iff | apply cub_inside_iff].
Qed.
Print Assumptions C17_tail_bound_is_inside.

(* Every accepted input gets a valid bin index, in ANY carrier of numbers and comparisons -- reals,
   float32, float64 -- and for knots of ANY magnitude: the (repaired) bin search only counts
   comparisons against all edges but the last.  Axiom-free. *)
Theorem C17_bin_index_in_range_any_carrier :
  forall (T : Type) (O : ops T) (locs : list T) (x : T) (K : nat),
    length locs = S K -> 1 <= K ->
    utils_searchsorted_cmp O x (hd x locs) = true ->
    (0 <= searchsorted O locs x < Z.of_nat K)%Z.
Proof. exact @searchsorted_index_in_range. Qed.
Print Assumptions C17_bin_index_in_range_any_carrier.

(* over the reals the index is moreover the bin that contains x (end points included) *)
Theorem C17_bin_contains_input : forall (locs : list R) (x : R) (K : nat),
  length locs = S K -> 0 < K -> Sorted.StronglySorted Rlt locs ->
  (nth 0 locs 0 <= x <= nth K locs 0)%R ->
  exists k : nat, searchsorted Rops locs x = Z.of_nat k /\ k < K /\
    (nth k locs 0 <= x)%R /\ ((x < nth (S k) locs 0)%R \/ S k = K).
Proof. exact searchsorted_spec. Qed.
Print Assumptions C17_bin_contains_input.

(* every input of the closed box is accepted by the whole rational-quadratic spline, in both directions, with a real result
   (no domain error, no index error in the bin lookup), for every accepted configuration and all parameters *)
From NF Require Import Base.Result Model.SplineRQ Proofs.SplineRQWhole.
Theorem C17_rq_whole_spline_accepts_its_box :
  forall (c : @rq_cfg R) (bx : @box R) (uw uh ud : list R), rq_wellformed c bx uw uh ud ->
  (forall x, b_left bx <= x <= b_right bx -> exists y l, rq_spline Rops c false bx uw uh ud x = Ok (y, l)) /\
  (forall y, b_bottom bx <= y <= b_top bx -> exists x l, rq_spline Rops c true bx uw uh ud y = Ok (x, l)).
Proof.
  intros c bx uw uh ud [H1 [H2 [H3 [H4 [H5 [H6 [H7 [H8 [H9 [H10 H11]]]]]]]]]]. split.
  - intros x Hx. destruct (whole_forward_range c bx uw uh ud H1 H2 H3 H4 H5 H6 H7 H8 H9 H10 H11 x Hx) as [y [l [E _]]]. exists y, l. exact E.
  - intros y Hy. destruct (whole_forward_of_inverse c bx uw uh ud H1 H2 H3 H4 H5 H6 H7 H8 H9 H10 H11 y Hy) as [x [l [E _]]]. exists x, l. exact E.
Qed.
Print Assumptions C17_rq_whole_spline_accepts_its_box.

(* the same for the whole piecewise-linear and piecewise-quadratic splines (both directions) and for the whole cubic spline's forward
   direction: every input of the closed box is accepted with a real result - the bin lookup always lands on a valid bin - for every
   configuration the code accepts and all parameters *)
From NF Require Import Model.SplineLinear Model.SplineQuadratic Model.SplineCubic Proofs.SplineLinearWhole Proofs.SplineQuadWhole Proofs.SplineCubicWhole.
Theorem C17_linear_quadratic_cubic_whole_splines_accept_their_box :
  (forall (bx : @box R) (u : list R), u <> nil -> b_left bx < b_right bx -> b_bottom bx < b_top bx ->
     (forall x, b_left bx <= x <= b_right bx -> exists y l, linear_spline Rops false bx u x = Ok (y, l)) /\
     (forall y, b_bottom bx <= y <= b_top bx -> exists x l, linear_spline Rops true bx u y = Ok (x, l))) /\
  (forall (minw minh : R) (bx : @box R) (uw uh : list R), uw <> nil ->
     (length uh = S (length uw) \/ (length uh = (length uw - 1)%nat /\ (2 <= length uw)%nat)) ->
     0 <= minw -> minw * INR (length uw) <= 1 -> 0 <= minh -> minh * INR (length uw) <= 1 ->
     b_left bx < b_right bx -> b_bottom bx < b_top bx ->
     (forall x, b_left bx <= x <= b_right bx -> exists y l, quadratic_spline Rops minw minh false bx uw uh x = Ok (y, l)) /\
     (forall y, b_bottom bx <= y <= b_top bx -> exists x l, quadratic_spline Rops minw minh true bx uw uh y = Ok (x, l))) /\
  (forall (minw minh eps thr : R) (bx : @box R) (uw uh : list R) (ul ur : R), uw <> nil -> length uh = length uw ->
     0 <= minw -> minw * INR (length uw) <= 1 -> 0 <= minh -> minh * INR (length uw) <= 1 ->
     b_left bx < b_right bx -> b_bottom bx < b_top bx ->
     forall x, b_left bx <= x <= b_right bx -> exists y l, cubic_spline Rops minw minh eps thr false bx uw uh ul ur x = Ok (y, l)).
Proof.
  split; [|split].
  - intros bx u H1 H2 H3. split.
    + intros x Hx. destruct (linear_whole bx u H1 H2 H3) as [A _]. destruct (A x Hx) as [y [l [E _]]]. exists y, l. exact E.
    + intros y Hy. destruct (linear_forward_of_inverse bx u H1 H2 H3 y Hy) as [x [l [E _]]]. exists x, l. exact E.
  - intros minw minh bx uw uh H1 H2 H3 H4 H5 H6 H7 H8. split.
    + intros x Hx. destruct (quadratic_whole minw minh bx uw uh H1 H2 H3 H4 H5 H6 H7 H8) as [A _]. destruct (A x Hx) as [y [l [E _]]]. exists y, l. exact E.
    + intros y Hy. destruct (quadratic_forward_of_inverse minw minh bx uw uh H1 H2 H3 H4 H5 H6 H7 H8 y Hy) as [x [l [E _]]]. exists x, l. exact E.
  - intros minw minh eps thr bx uw uh ul ur H1 H2 H3 H4 H5 H6 H7 H8 x Hx.
    destruct (cubic_whole minw minh eps thr bx uw uh ul ur H1 H2 H3 H4 H5 H6 H7 H8) as [A _]. destruct (A x Hx) as [y [l [E _]]]. exists y, l. exact E.
Qed.
Print Assumptions C17_linear_quadratic_cubic_whole_splines_accept_their_box.
