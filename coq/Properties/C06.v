(* C06 -- MADE conditioners are strictly autoregressive for every architecture and weight.
   Statements only.  Everything here is free of axioms. *)
From Coq Require Import ZArith List Bool Arith Lia.
From NF Require Import Gen.MadeT Gen.MadeN Model.Utils Model.Made Proofs.MadeP.
Import ListNotations.

(* The statement, for the copy in nflows/transforms/made.py.  [net] ranges over every
   network shape the constructor can produce (initial layer, optional context term,
   any number of feed-forward or residual blocks, batch norm / dropout / activation as
   arbitrary per-unit maps, arbitrary hidden degrees -- sequential or any random draw),
   with ARBITRARY weights and biases over an arbitrary carrier whose multiplication
   by zero gives zero. *)
Theorem C06_made_autoregressive_transforms_copy :
  forall (T : Type) (tadd tmul : T -> T -> T) (tzero tone : T),
    (forall a, tmul a tzero = tzero) -> (forall a, tmul tzero a = tzero) ->
  forall (net : made T) (F m : nat),
    1 <= F -> 1 <= m ->
    in_deg T net = madeT_input_degree F ->
    (forall o, o < F * m -> m_deg T (final T net) o = nth o (output_degrees genT F (F * m)) 0) ->
    layers_ok T (madeT_input_degree F) (body T net) ->
    forall (x x' : vec T) (i k : nat), i < F -> k < m ->
      (forall j, j < i -> x j = x' j) ->
      eval_made T tadd tmul tzero tone madeT_hidden_cmp madeT_output_cmp net x (i * m + k)
      = eval_made T tadd tmul tzero tone madeT_hidden_cmp madeT_output_cmp net x' (i * m + k).
Proof.
  intros T tadd tmul tzero tone Hr Hl net F m.
  exact (made_block_independent T tadd tmul tzero tone Hr Hl genT genT_ok net F m).
Qed.
Print Assumptions C06_made_autoregressive_transforms_copy.

(* ... and for the copy in nflows/nn/nde/made.py (also the mixture-of-Gaussians MADE,
   whose output multiplier is 3 * num_mixture_components) *)
Theorem C06_made_autoregressive_nde_copy :
  forall (T : Type) (tadd tmul : T -> T -> T) (tzero tone : T),
    (forall a, tmul a tzero = tzero) -> (forall a, tmul tzero a = tzero) ->
  forall (net : made T) (F m : nat),
    1 <= F -> 1 <= m ->
    in_deg T net = madeN_input_degree F ->
    (forall o, o < F * m -> m_deg T (final T net) o = nth o (output_degrees genN F (F * m)) 0) ->
    layers_ok T (madeN_input_degree F) (body T net) ->
    forall (x x' : vec T) (i k : nat), i < F -> k < m ->
      (forall j, j < i -> x j = x' j) ->
      eval_made T tadd tmul tzero tone madeN_hidden_cmp madeN_output_cmp net x (i * m + k)
      = eval_made T tadd tmul tzero tone madeN_hidden_cmp madeN_output_cmp net x' (i * m + k).
Proof.
  intros T tadd tmul tzero tone Hr Hl net F m.
  exact (made_block_independent T tadd tmul tzero tone Hr Hl genN genN_ok net F m).
Qed.
Print Assumptions C06_made_autoregressive_nde_copy.

(* the layout of the output layer: unit o carries the degree of feature o / m, i.e.
   view(-1, F, m)[..., i, :] is exactly the block of feature i *)
Theorem C06_output_layout : forall (F m o : nat),
  1 <= F -> 1 <= m -> o < F * m ->
  nth o (output_degrees genT F (F * m)) 0 = madeT_input_degree F (o / m)
  /\ nth o (output_degrees genN F (F * m)) 0 = madeN_input_degree F (o / m).
Proof.
  intros F m o HF Hm Ho. split;
    [exact (output_degrees_nth genT F m o genT_ok HF Hm Ho) | exact (output_degrees_nth genN F m o genN_ok HF Hm Ho)].
Qed.
Print Assumptions C06_output_layout.

(* residual blocks with sequential degrees always pass the constructor's degree check *)
Theorem C06_sequential_degrees_pass_residual_check : forall (F H : nat),
  res_degrees_ok (hidden_degrees_seq genT F H) (hidden_degrees_seq genT F H) = true.
Proof. intros; apply res_degrees_ok_refl. Qed.
Print Assumptions C06_sequential_degrees_pass_residual_check.

(* non-vacuity and tightness: a concrete 2-feature network over Z (one residual block,
   context term, ReLU) meets every hypothesis, its second output DOES depend on x0,
   its first output depends on nothing. *)
Section Example.
  Let relu (u : nat) (z : Z) : Z := Z.max 0 z.
  Let seqdeg := madeT_seq_degree 2 2.
  Let m0 : masked Z := {| m_nin := 2; m_deg := seqdeg; m_w := fun _ _ => 1%Z; m_b := fun _ => 0%Z |}.
  Let net : made Z := {|
    n_features := 2; in_deg := madeT_input_degree 2;
    body := [LMasked Z m0; LAddConst Z (fun _ => 5%Z); LRes Z relu m0 (fun _ => 1%Z) relu m0];
    final := {| m_nin := 2; m_deg := fun o => nth o (output_degrees genT 2 2) 0;
                m_w := fun _ _ => 1%Z; m_b := fun _ => 0%Z |} |}.
  Let ev := eval_made Z Z.add Z.mul 0%Z 1%Z madeT_hidden_cmp madeT_output_cmp net.
  Let x0 : vec Z := fun j => 0%Z.
  Let x1 : vec Z := fun j => if Nat.eqb j 0 then 1%Z else 0%Z.

  Example C06_hypotheses_satisfiable_and_tight :
    layers_ok Z (madeT_input_degree 2) (body Z net)
    /\ ev x0 1 <> ev x1 1        (* block 1 sees input 0 *)
    /\ ev x0 0 = ev x1 0.        (* block 0 does not *)
  Proof.
    split; [|split].
    - cbn. repeat split; intros; unfold seqdeg, madeT_seq_degree; lia.
    - vm_compute. discriminate.
    - vm_compute. reflexivity.
  Qed.
End Example.

(* every place in the two files that touches a layer's weight or calls F.linear is MaskedLinear.forward (where the weight is
   multiplied by the mask) or a constructor / initialiser: no evaluation path can bypass the mask (table regenerated from both
   sources on every run) *)
Theorem C06_weights_are_only_used_through_the_mask :
  forallb (fun r => snd r) madeT_weight_uses = true /\ forallb (fun r => snd r) madeN_weight_uses = true.
Proof. split; reflexivity. Qed.
Print Assumptions C06_weights_are_only_used_through_the_mask.

(* the constructors of both copies hand the degrees from layer to layer as a chain - the data flow the model's [eval_layers]
   evaluates and the theorems above are about (table regenerated from both sources on every run) *)
Theorem C06_constructors_wire_degrees_in_a_chain :
  madeT_degree_wiring = chain_wiring /\ madeN_degree_wiring = chain_wiring.
Proof. split; reflexivity. Qed.
Print Assumptions C06_constructors_wire_degrees_in_a_chain.
