(* C07 -- coupling layers leave identity features untouched and condition only on them.
   Statements only; axiom-free; polymorphic in the type B of a feature slice (a number for
   2-D inputs, a channel's h*w values for images), so "bit-for-bit" is literal equality. *)
From Coq Require Import ZArith List Bool Arith Lia Sorted.
From NF Require Import Model.Coupling Proofs.CouplingP.
Import ListNotations.

(* every mask (any pattern, any numeric values) splits the features into two sorted,
   duplicate-free, disjoint index lists that together cover all features *)
Theorem C07_index_partition : forall (mask : list Z),
  (forall i, In i (identity_idx mask) <-> i < length mask /\ (nth i mask 0 <= 0)%Z) /\
  (forall i, In i (transform_idx mask) <-> i < length mask /\ (0 < nth i mask 0)%Z) /\
  (forall i, In i (identity_idx mask) -> ~ In i (transform_idx mask)) /\
  (forall i, i < length mask -> In i (identity_idx mask) \/ In i (transform_idx mask)) /\
  NoDup (identity_idx mask) /\ NoDup (transform_idx mask) /\
  StronglySorted lt (identity_idx mask) /\ StronglySorted lt (transform_idx mask) /\
  length (identity_idx mask) + length (transform_idx mask) = length mask.
Proof.
  intros mask.
  split; [intros; apply in_identity_idx|]. split; [intros; apply in_transform_idx|].
  split; [apply idx_disjoint|]. split; [apply idx_cover|].
  split; [apply idx_nodup|]. split; [apply idx_nodup|].
  split; [apply idx_sorted|]. split; [apply idx_sorted | apply idx_lengths].
Qed.
Print Assumptions C07_index_partition.

Section Statements.
  Context {B P C L : Type} (d : B) (net : list B -> C -> P)
          (kel_fwd kel_inv : P -> nat -> B -> B) (kld_fwd kld_inv : P -> list B -> L)
          (ladd : L -> L -> L) (lzero : L).

  (* without an unconditional transform, features with mask <= 0 are returned unchanged, both directions *)
  Theorem C07_identity_features_unchanged : forall (mask : list Z) (x : list B) (ctx : C) (i : nat),
    i < length mask -> (nth i mask 0 <= 0)%Z ->
    nth i (fst (forward d net kel_fwd kld_fwd ladd None mask x ctx)) d = nth i x d /\
    nth i (fst (inverse d net kel_inv kld_inv ladd lzero None mask x ctx)) d = nth i x d.
  Proof.
    intros mask x ctx i Hi Hm. split;
      [apply identity_passthrough_fwd | apply identity_passthrough_inv]; solve [exact lzero | assumption].
  Qed.

  (* each transformed feature is the elementwise kernel of its own input; the kernel's
     parameters are the network applied to the identity features and the context *)
  Theorem C07_transformed_feature : forall (mask : list Z) (x : list B) (ctx : C) (k : nat),
    k < length (transform_idx mask) ->
    nth (nth k (transform_idx mask) 0) (fst (forward d net kel_fwd kld_fwd ladd None mask x ctx)) d
    = kel_fwd (net (gather d (identity_idx mask) x) ctx) k (nth (nth k (transform_idx mask) 0) x d).
  Proof. intros mask x ctx k Hk. apply transformed_feature_fwd; solve [exact lzero | assumption]. Qed.

  (* so the Jacobian is triangular up to the mask's permutation: output i depends only on
     input i and on the identity inputs *)
  Theorem C07_dependency : forall (mask : list Z) (x x' : list B) (ctx : C) (i : nat),
    i < length mask ->
    (forall j, In j (identity_idx mask) -> nth j x d = nth j x' d) -> nth i x d = nth i x' d ->
    nth i (fst (forward d net kel_fwd kld_fwd ladd None mask x ctx)) d
    = nth i (fst (forward d net kel_fwd kld_fwd ladd None mask x' ctx)) d.
  Proof. intros mask x x' ctx i H1 H2 H3. apply coupling_dependency; solve [exact lzero | assumption]. Qed.

  Theorem C07_inverse_undoes_forward : forall (mask : list Z) (x : list B) (ctx : C),
    length x = length mask ->
    (forall p k v, kel_inv p k (kel_fwd p k v) = v) ->
    fst (inverse d net kel_inv kld_inv ladd lzero None mask
                 (fst (forward d net kel_fwd kld_fwd ladd None mask x ctx)) ctx) = x.
  Proof. intros mask x ctx H1 H2. apply coupling_inverse_forward; assumption. Qed.
End Statements.
Print Assumptions C07_identity_features_unchanged.
Print Assumptions C07_transformed_feature.
Print Assumptions C07_dependency.
Print Assumptions C07_inverse_undoes_forward.

(* non-vacuity: a 4-feature additive coupling over Z with mask values [-2; 3; 0; 1] *)
Example C07_example :
  let mask := [-2; 3; 0; 1]%Z in
  let net (idf : list Z) (_ : unit) := fold_right Z.add 0%Z idf in
  let y := fst (forward 0%Z net (fun p _ v => (v + p)%Z) (fun _ _ => tt) (fun _ _ => tt) None mask [10; 20; 30; 40]%Z tt) in
  identity_idx mask = [0; 2] /\ transform_idx mask = [1; 3] /\ y = [10; 60; 30; 80]%Z.
Proof. vm_compute. repeat split. Qed.

(* the conditioner network and the unconditional transform are called with (identity split, context) in both directions (table
   regenerated from nflows/transforms/coupling.py on every run) *)
From Coq Require Import String.
From NF Require Gen.Context.
Theorem C07_conditioner_sees_identity_split_and_context :
  forallb (fun r => snd r) Gen.Context.coupling_context_forwarding = true /\
  forallb (fun r => match r with (_, call, _) =>
     orb (String.prefix "self.transform_net(identity_split, context)"%string call)
         (String.prefix "self.unconditional_transform"%string call) end)
    Gen.Context.coupling_context_forwarding = true.
Proof. split; reflexivity. Qed.
Print Assumptions C07_conditioner_sees_identity_split_and_context.

(* whether the identity features get a transform of their own is decided by the caller alone: in every subclass constructor the
   unconditional transform is built under `if apply_unconditional_transform:` and is None otherwise; the base class stores None
   when given None (table regenerated from nflows/transforms/coupling.py on every run) *)
Theorem C07_unconditional_transform_only_when_requested :
  forallb (fun r => match r with (cls, test, other) =>
     if String.eqb cls "CouplingTransform"
     then String.eqb test "unconditional_transform is None"
     else andb (String.eqb test "apply_unconditional_transform") (String.eqb other "None") end)
    Gen.Context.coupling_unconditional_gates = true
  /\ 5 <= List.length Gen.Context.coupling_unconditional_gates.
Proof. split; [reflexivity | cbv; repeat constructor]. Qed.
Print Assumptions C07_unconditional_transform_only_when_requested.
