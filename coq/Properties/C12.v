(* C12 -- batch items are evaluated independently in evaluation mode.  Statements only; axiom-free. *)
From Coq Require Import List Arith Permutation.
From NF Require Import Model.Utils Proofs.BatchP.
Import ListNotations.

(* a batch function that is the map of a row function: rows one at a time, any re-indexing of the batch
   (permutation, selection, duplication), any set of neighbouring rows *)
Theorem C12_rowwise_maps_are_batch_independent : forall (A B : Type) (f : A -> B),
  (forall rows, batch f rows = flat_map (fun r => batch f [r]) rows) /\
  (forall rows idx d, batch f (map (fun i => nth i rows d) idx) = map (fun i => f (nth i rows d)) idx) /\
  (forall rows rows', Permutation rows rows' -> Permutation (batch f rows) (batch f rows')) /\
  (forall before r after, nth (length before) (batch f (before ++ r :: after)) (f r) = f r).
Proof.
  intros A B f. split; [apply batch_is_rowwise|]. split; [apply batch_reindex|]. split; [apply batch_permutation | apply batch_subset].
Qed.
Print Assumptions C12_rowwise_maps_are_batch_independent.

(* the 1x1 convolution's flatten-all-pixels / map / cut-back pipeline is the per-item map *)
Theorem C12_one_by_one_convolution_is_per_item : forall (P Q : Type) (g : P -> Q) (npix : nat) (items : list (list P)),
  Forall (fun it => length it = npix) items -> conv_batch g npix items = map (conv_item g) items.
Proof. exact @conv_is_per_item. Qed.
Print Assumptions C12_one_by_one_convolution_is_per_item.

(* the boolean-mask gather / scatter of the unconstrained splines is an elementwise map *)
Theorem C12_masked_spline_is_elementwise : forall (A : Type) (inside : A -> bool) (spline : A -> A) (xs : list A),
  masked_apply inside spline xs = map (fun x => if inside x then spline x else x) xs.
Proof. exact @masked_apply_is_elementwise. Qed.
Print Assumptions C12_masked_spline_is_elementwise.
(* Everything else in the transforms is built from row-preserving index maps proved elsewhere: coupling gather /
   scatter (C07), composition (C08), merge / split / repeat_rows (C20), elementwise kernels (C01).  Batch-global
   behaviour that remains by design: the domain checks use torch.min / torch.max over the whole batch, so one
   out-of-domain row makes the call raise for all rows; BatchNorm in TRAINING mode mixes rows (C14). *)

(* ---- the four unconstrained_*_spline wrappers as regenerated from the source are per-element functions: an element
   inside [-B, B] gets the inner spline with EVERY configured value (box = [-B, B]^2, minimum sizes, minimum derivative,
   flags) whatever the rest of the batch holds; an element outside is returned unchanged with log-det 0.  A batch-wide
   shortcut, or an argument that is not forwarded, changes the generated definition and breaks these. *)
From Coq Require Import ZArith.
From NF Require Import Base.Ops Gen.TailWrappers.

Theorem C12_linear_tails_per_element : forall (T : Type) (O : ops T) inner (x : T) pdf B inv,
  lin_tails_elem O inner x pdf B inv
  = if andb (o_leb O (o_neg O B) x) (o_leb O x B) then inner x pdf inv (o_neg O B) B (o_neg O B) B else (x, o_ofZ O 0%Z).
Proof. reflexivity. Qed.
Print Assumptions C12_linear_tails_per_element.

Theorem C12_quadratic_tails_per_element : forall (T : Type) (O : ops T) inner (x : T) uw uh B mbw mbh inv,
  quad_tails_elem O inner x uw uh B mbw mbh inv
  = if andb (o_leb O (o_neg O B) x) (o_leb O x B) then inner x uw uh inv (o_neg O B) B (o_neg O B) B mbw mbh else (x, o_ofZ O 0%Z).
Proof. reflexivity. Qed.
Print Assumptions C12_quadratic_tails_per_element.

Theorem C12_cubic_tails_per_element : forall (T : Type) (O : ops T) inner (x : T) uw uh dl dr B mbw mbh eps qt inv,
  cub_tails_elem O inner x uw uh dl dr B mbw mbh eps qt inv
  = if andb (o_leb O (o_neg O B) x) (o_leb O x B) then inner x uw uh dl dr inv (o_neg O B) B (o_neg O B) B mbw mbh eps qt else (x, o_ofZ O 0%Z).
Proof. reflexivity. Qed.
Print Assumptions C12_cubic_tails_per_element.

Theorem C12_rq_tails_per_element : forall (T : Type) (O : ops T) inner (x : T) uw uh ud B mbw mbh md inv eii,
  rq_tails_elem O inner x uw uh ud B mbw mbh md inv eii
  = if andb (o_leb O (o_neg O B) x) (o_leb O x B)
    then inner x uw uh (pad_ends (o_ln O (o_sub O (o_exp O (o_sub O (o_ofZ O 1%Z) md)) (o_ofZ O 1%Z))) ud) inv (o_neg O B) B (o_neg O B) B mbw mbh md eii
    else (x, o_ofZ O 0%Z).
Proof. reflexivity. Qed.
Print Assumptions C12_rq_tails_per_element.
