(* C12 -- batch items are evaluated independently in evaluation mode.  Statements only; axiom-free. *)
From Coq Require Import List Arith Permutation.
From NF Require Import Model.Utils Proofs.BatchP.
Import ListNotations.

(* a batch function that is the map of a row function: rows one at a time, any re-indexing of the batch
   (permutation, selection, duplication), any set of neighbouring rows *)
Theorem C12_rowwise_maps_are_batch_independent : forall (A B : Type) (f : A -> B),
  (forall rows, batch f rows = flat_map (fun r => batch f [r]) rows) /\
  (forall rows idx d, batch f (map (fun i => nth i rows d) idx) = map (fun i => f (nth i rows d)) idx) /\
  (forall rows rows', Permutation rows rows' -> Permutation (batch f rows) (batch f rows')) /\
  (forall before r after, nth (length before) (batch f (before ++ r :: after)) (f r) = f r).
Proof.
  intros A B f. split; [apply batch_is_rowwise|]. split; [apply batch_reindex|]. split; [apply batch_permutation | apply batch_subset].
Qed.
Print Assumptions C12_rowwise_maps_are_batch_independent.

(* the 1x1 convolution's flatten-all-pixels / map / cut-back pipeline is the per-item map *)
Theorem C12_one_by_one_convolution_is_per_item : forall (P Q : Type) (g : P -> Q) (npix : nat) (items : list (list P)),
  Forall (fun it => length it = npix) items -> conv_batch g npix items = map (conv_item g) items.
Proof. exact @conv_is_per_item. Qed.
Print Assumptions C12_one_by_one_convolution_is_per_item.

(* the boolean-mask gather / scatter of the unconstrained splines is an elementwise map *)
Theorem C12_masked_spline_is_elementwise : forall (A : Type) (inside : A -> bool) (spline : A -> A) (xs : list A),
  masked_apply inside spline xs = map (fun x => if inside x then spline x else x) xs.
Proof. exact @masked_apply_is_elementwise. Qed.
Print Assumptions C12_masked_spline_is_elementwise.
(* Everything else in the transforms is built from row-preserving index maps proved elsewhere: coupling gather /
   scatter (C07), composition (C08), merge / split / repeat_rows (C20), elementwise kernels (C01).  Batch-global
   behaviour that remains by design: the domain checks use torch.min / torch.max over the whole batch, so one
   out-of-domain row makes the call raise for all rows; BatchNorm in TRAINING mode mixes rows (C14). *)
