(* C08 -- Composite, inverse and multiscale wrappers are exact function composition.
   Statements only; axiom-free.  A transform is a pair (fwd, inv) of functions
   returning new data and a log-det in any commutative monoid (L, ladd, lzero);
   [comp], [inverse_of], [ms_forward]/[ms_inverse] are the wrappers, so every nesting
   of wrappers is a term over them and the theorems compose. *)
From Coq Require Import List Arith Bool Lia.
From NF Require Import Base.Result Model.Utils Model.Compose Proofs.ComposeP.
Import ListNotations.

Section Statements.
  Context {X L : Type} (ladd : L -> L -> L) (lzero : L).
  Hypothesis ladd_assoc : forall a b c, ladd a (ladd b c) = ladd (ladd a b) c.
  Hypothesis ladd_comm : forall a b, ladd a b = ladd b a.
  Hypothesis ladd_0_l : forall a, ladd lzero a = a.

  (* a composite computes the parts in the order given ... *)
  Theorem C08_composite_forward_order : forall (ts : list (tr X L)) (x : X),
    fst (fwd (comp ladd lzero ts) x) = fold_left (fun v t => fst (fwd t v)) ts x.
  Proof. exact (comp_fwd_order ladd lzero ladd_assoc ladd_comm ladd_0_l). Qed.

  (* ... and returns the sum of the parts' log-dets, each taken at the point it is applied *)
  Theorem C08_composite_logdet_is_sum : forall (t : tr X L) (ts : list (tr X L)) (x : X),
    snd (fwd (comp ladd lzero (t :: ts)) x)
    = ladd (snd (fwd t x)) (snd (fwd (comp ladd lzero ts) (fst (fwd t x)))).
  Proof.
    intros t ts x. cbn [comp fwd map]. rewrite (cascade_cons ladd lzero ladd_assoc ladd_comm ladd_0_l). reflexivity.
  Qed.

  (* its inverse applies the parts' inverses in the reverse order *)
  Theorem C08_composite_inverse_order : forall (ts : list (tr X L)) (y : X),
    fst (inv (comp ladd lzero ts) y) = fold_right (fun t v => fst (inv t v)) y ts.
  Proof. exact (comp_inv_order ladd lzero ladd_assoc ladd_comm ladd_0_l). Qed.

  (* composites of invertible parts are invertible, log-dets cancel: closed under nesting *)
  Theorem C08_composite_inverse_undoes_forward : forall ts : list (tr X L),
    Forall (good ladd lzero) ts -> good ladd lzero (comp ladd lzero ts).
  Proof. exact (good_comp ladd lzero ladd_assoc ladd_comm ladd_0_l). Qed.

  (* wrapping as the inverse swaps the two directions exactly *)
  Theorem C08_inverse_wrapper_swaps : forall t : tr X L,
    fwd (inverse_of t) = inv t /\ inv (inverse_of t) = fwd t /\ inverse_of (inverse_of t) = t
    /\ (good ladd lzero t -> good ladd lzero (inverse_of t)).
  Proof.
    intros t. split; [reflexivity|]. split; [reflexivity|]. split; [apply inverse_of_involutive | apply good_inverse_of].
  Qed.
End Statements.
Print Assumptions C08_composite_forward_order.
Print Assumptions C08_composite_logdet_is_sum.
Print Assumptions C08_composite_inverse_order.
Print Assumptions C08_composite_inverse_undoes_forward.
Print Assumptions C08_inverse_wrapper_swaps.

(* Multiscale: for every number of stages, split dimension d >= 1, stage output shapes
   (odd or even sizes) and invertible size-preserving stages, the inverse undoes the
   routing and the log-dets cancel; the outputs have exactly the input's size. *)
Theorem C08_multiscale_inverse_undoes_forward :
  forall (A L : Type) (ladd : L -> L -> L) (lzero : L),
    (forall a b c, ladd a (ladd b c) = ladd (ladd a b) c) -> (forall a b, ladd a b = ladd b a) ->
    (forall a, ladd lzero a = a) ->
  forall d, 1 <= d -> forall (ss : list (tr (list A) L * list nat)) (x : list A),
    stages_ok ladd lzero d ss ->
    (match ss with [] => True | (_, sh) :: _ => length x = prod sh end) ->
    fst (ms_inverse ladd lzero d ss (fst (ms_forward ladd lzero d ss x))) = x /\
    ladd (snd (ms_forward ladd lzero d ss x))
         (snd (ms_inverse ladd lzero d ss (fst (ms_forward ladd lzero d ss x)))) = lzero.
Proof. intros A L ladd lzero H1 H2 H3. exact (ms_inverse_forward ladd lzero H1 H3). Qed.
Print Assumptions C08_multiscale_inverse_undoes_forward.

Theorem C08_multiscale_output_size :
  forall (A L : Type) (ladd : L -> L -> L) (lzero : L) d, 1 <= d ->
  forall (ss : list (tr (list A) L * list nat)) (x : list A),
    stages_ok ladd lzero d ss ->
    (match ss with [] => True | (_, sh) :: _ => length x = prod sh end) ->
    length (fst (ms_forward ladd lzero d ss x)) = length x.
Proof. intros A L ladd lzero. exact (ms_forward_length ladd lzero). Qed.
Print Assumptions C08_multiscale_output_size.

(* splitting a tensor in two along a dimension and concatenating back are mutually inverse *)
Theorem C08_split_cat_inverse : forall (A : Type) (O n I c : nat) (x : list A),
  length x = (n * I) * O -> c <= n ->
  cat_dim O c (n - c) I (fst (split_dim O n I c x)) (snd (split_dim O n I c x)) = x.
Proof. exact @cat_split. Qed.
Print Assumptions C08_split_cat_inverse.

Theorem C08_cat_split_inverse : forall (A : Type) (O c1 c2 I : nat) (a b : list A),
  length a = (c1 * I) * O -> length b = (c2 * I) * O ->
  split_dim O (c1 + c2) I c1 (cat_dim O c1 c2 I a b) = (a, b).
Proof. exact @split_cat. Qed.
Print Assumptions C08_cat_split_inverse.

(* add_transform's shape bookkeeping: the recorded output and hidden shapes partition the
   transform's output, for odd and even sizes; its three error cases *)
Theorem C08_add_transform_shapes : forall split_d num count sh out hid,
  1 <= split_d -> add_transform split_d num count sh = Ok (out, Some hid) ->
  prod out + prod hid = prod sh /\ length out = length sh /\ length hid = length sh.
Proof. exact add_transform_sizes. Qed.
Print Assumptions C08_add_transform_shapes.

Theorem C08_add_transform_errors : forall split_d num count sh,
  (count = num -> add_transform split_d num count sh = RuntimeErr) /\
  (count <> num -> length sh <= split_d - 1 -> add_transform split_d num count sh = ValueErr) /\
  (count <> num -> split_d - 1 < length sh -> nth (split_d - 1) sh 0 < 2 -> add_transform split_d num count sh = ValueErr).
Proof. exact add_transform_errors. Qed.
Print Assumptions C08_add_transform_errors.

(* non-vacuity: two invertible integer stages on a [3]-shaped item (odd size) *)
Example C08_multiscale_example :
  let t (k : nat) : tr (list nat) nat :=
      {| fwd := fun x => (map (fun v => v + k) x, 0); inv := fun x => (map (fun v => v - k) x, 0) |} in
  let ss := [(t 10, [3]); (t 100, [1])] in
  ms_forward Nat.add 0 1 ss [1; 2; 3] = ([11; 12; 113], 0) /\
  fst (ms_inverse Nat.add 0 1 ss [11; 12; 113]) = [1; 2; 3].
Proof. vm_compute. split; reflexivity. Qed.

(* ---- the wrappers as regenerated from nflows/transforms/base.py ARE the model's combinators ---- *)
From NF Require Import Gen.Wrappers.

Lemma cascade_gen_is_cascade : forall (X L : Type) (ladd : L -> L -> L) (lzero : L) (fs : list (X -> X * L)) (x : X),
  cascade_gen ladd lzero x fs = cascade ladd lzero fs x.
Proof.
  intros X L ladd lzero fs x. unfold cascade_gen, cascade.
  assert (E : forall (acc : X * L), fold_left (fun st_ func => let '(outputs, total_logabsdet) := st_ in
              let '(outputs0, logabsdet) := func outputs in (outputs0, ladd total_logabsdet logabsdet)) fs acc
            = fold_left (step_acc ladd) fs acc).
  { induction fs as [|f fs IH]; intros acc; [reflexivity|]. cbn [fold_left]. rewrite IH. f_equal.
    unfold step_acc. destruct acc as [o t]. cbn [fst snd]. destruct (f o); reflexivity. }
  rewrite E. destruct (fold_left (step_acc ladd) fs (x, lzero)); reflexivity.
Qed.

Theorem C08_generated_composite_is_the_model : forall (X L : Type) (ladd : L -> L -> L) (lzero : L) (ts : list (tr X L)) (x : X),
  composite_forward ladd lzero (composite_init ts) x = fwd (comp ladd lzero ts) x /\
  composite_inverse ladd lzero (composite_init ts) x = inv (comp ladd lzero ts) x.
Proof.
  intros. unfold composite_forward, composite_inverse, composite_init. rewrite !cascade_gen_is_cascade. split; reflexivity.
Qed.
Print Assumptions C08_generated_composite_is_the_model.

(* the inverse wrapper keeps exactly the transform it was given (no unwrapping, no re-wrapping) and swaps directions;
   hence wrapping twice gives back the original transform's behaviour *)
Theorem C08_generated_inverse_wrapper_is_the_model : forall (X L : Type) (t : tr X L) (x : X),
  inverse_forward (inverse_init t) x = fwd (inverse_of t) x /\ inverse_inverse (inverse_init t) x = inv (inverse_of t) x.
Proof. intros. split; reflexivity. Qed.
Print Assumptions C08_generated_inverse_wrapper_is_the_model.

Theorem C08_double_inverse_wrapper_is_identity : forall (X L : Type) (t : tr X L) (x : X),
  fwd (inverse_of (inverse_of t)) x = fwd t x /\ inv (inverse_of (inverse_of t)) x = inv t x.
Proof. intros. split; reflexivity. Qed.
Print Assumptions C08_double_inverse_wrapper_is_identity.

(* every part of a composite / multiscale / inverse wrapper is called with the wrapper's own context *)
From NF Require Gen.Context.
Theorem C08_wrappers_hand_the_context_to_every_part :
  forallb (fun r => snd r) Gen.Context.wrappers_context_forwarding = true.
Proof. reflexivity. Qed.
Print Assumptions C08_wrappers_hand_the_context_to_every_part.
