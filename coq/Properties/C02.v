(* C02 -- inverse undoes forward in both orders and returns the negated log-abs-det.
   Statements only (exact real arithmetic; floating-point accuracy is outside the theorems). *)
From Coq Require Import Reals List Arith.
From Coquelicot Require Import Coquelicot.
From NF Require Import Base.Ops Base.Rops Gen.Nonlin Gen.SplineRQ Gen.SplineQuadratic Gen.Norm
  Proofs.SplineRQP Proofs.SplineLQP Proofs.NonlinP Proofs.C01Extra Proofs.ARInverse.
Local Open Scope R_scope.

(* rational-quadratic bin, formulas generated from the source: for every bin and every y in the output bin
   the discriminant is non-negative (the code's assert never fires), the returned root lies in the bin,
   forward(inverse(y)) = y, inverse(forward(x)) = x, and the inverse's log-det is minus the forward's at
   the pre-image *)
Theorem C02_rq_bin_both_orders : forall xk w yk h d0 d1 : R, 0 < w -> 0 < h -> 0 < d0 -> 0 < d1 ->
  (forall y, yk <= y <= yk + h ->
     0 <= disc w yk h d0 d1 y /\ xk <= inv xk w yk h d0 d1 y <= xk + w /\
     fwd xk w yk h d0 d1 (inv xk w yk h d0 d1 y) = y /\
     inv_lad xk w yk h d0 d1 y = - lad xk w yk h d0 d1 (inv xk w yk h d0 d1 y)) /\
  (forall x, xk <= x <= xk + w -> inv xk w yk h d0 d1 (fwd xk w yk h d0 d1 x) = x).
Proof.
  intros xk w yk h d0 d1 Hw Hh H0 H1. split.
  - intros y Hy. split; [apply disc_nonneg; assumption|]. split; [apply inv_in_bin; assumption|].
    split; [apply fwd_inv; assumption | apply inv_lad_neg; assumption].
  - intros x Hx. apply inv_fwd; assumption.
Qed.
Print Assumptions C02_rq_bin_both_orders.

(* quadratic bin: the (stable) root returned by the inverse lies in [0,1] and is the pre-image, for every
   pair of positive heights -- equal heights included *)
Theorem C02_quadratic_bin_inverse : forall l w c0 hl hr y : R, 0 < w -> 0 < hl -> 0 < hr ->
  c0 <= y <= c0 + (hl + hr) / 2 * w ->
  0 <= q_alpha l w c0 hl hr y <= 1 /\ q_raw l w c0 hl hr (l + q_alpha l w c0 hl hr y * w) = y.
Proof.
  intros l w c0 hl hr y Hw Hl Hr Hy. split; [apply q_alpha_correct; assumption | apply q_forward_of_inverse; assumption].
Qed.
Print Assumptions C02_quadratic_bin_inverse.

Theorem C02_exp : forall x y, 0 < y ->
  exp_inv_ret0 Rops (exp_fwd_ret0 Rops x) = x /\ exp_fwd_ret0 Rops (exp_inv_ret0 Rops y) = y /\
  exp_inv_ret1 Rops y = - exp_fwd_ret1 Rops (exp_inv_ret0 Rops y).
Proof. exact exp_round_trip. Qed.
Print Assumptions C02_exp.

Theorem C02_actnorm_and_gate_elements : forall log_scale shift x c : R,
  an_inverse_out Rops (an_scale Rops log_scale) shift (an_forward_out Rops (an_scale Rops log_scale) shift x) = x /\
  glu_inv_ret0 Rops (glu_fwd_ret0 Rops x c) c = x.
Proof. intros. split; [apply actnorm_derive | apply glu_derive]. Qed.
Print Assumptions C02_actnorm_and_gate_elements.

(* masked autoregressive transforms: with an autoregressive conditioner (C06) and an invertible elementwise
   kernel, D passes of the inverse loop recover the pre-image exactly, and the last pass evaluates the
   parameters (hence the log-det) at the true pre-image.  Axiom-free, any carrier. *)
Theorem C02_autoregressive_inverse_exact :
  forall (T P : Type) (net : (nat -> T) -> nat -> P) (k kinv : P -> T -> T),
    (forall i x x', (forall j, (j < i)%nat -> x j = x' j) -> net x i = net x' i) ->
    (forall p v, kinv p (k p v) = v) ->
    forall (D : nat) (x z0 : nat -> T) (i : nat),
      ((i < D)%nat -> ar_iter T P net kinv D (ar_forward T P net k x) z0 i = x i) /\
      ((i < S D)%nat -> net (ar_iter T P net kinv D (ar_forward T P net k x) z0) i = net x i).
Proof.
  intros T P net k kinv Hn Hk D x z0 i. split; intros Hi;
    [apply ar_inverse_exact | apply ar_last_pass_params]; assumption.
Qed.
Print Assumptions C02_autoregressive_inverse_exact.

(* Coupling layers (C07_inverse_undoes_forward), composites / inverse wrappers / multiscale
   (C08_composite_inverse_undoes_forward, C08_multiscale_inverse_undoes_forward), BatchNorm in evaluation mode
   (C14_batchnorm_inverse_only_in_eval) are proved in the files of those properties.
   NOT PROVED: the cubic inverse (closed-form roots with declared tolerances), LogTanh / tanh / sigmoid /
   Cauchy inverse identities, UMNN's bisection; floating-point accuracy and finiteness. *)

(* ---- the whole rational-quadratic spline: the inverse branch undoes the forward branch and vice versa, on the whole box,
   for every accepted configuration and all parameters; the log-abs-dets are negatives of each other ---- *)
From NF Require Import Base.Result Model.SplineRQ Proofs.SplineRQWhole.
Theorem C02_rq_whole_spline_round_trips :
  forall (c : @rq_cfg R) (bx : @box R) (uw uh ud : list R), rq_wellformed c bx uw uh ud ->
  (forall x, b_left bx <= x <= b_right bx ->
     rq_spline Rops c true bx uw uh ud (F c bx uw uh ud x) = Ok (x, - Flad c bx uw uh ud x)) /\
  (forall y, b_bottom bx <= y <= b_top bx ->
     exists x l, rq_spline Rops c true bx uw uh ud y = Ok (x, l) /\ (b_left bx <= x <= b_right bx) /\
                 F c bx uw uh ud x = y /\ l = - Flad c bx uw uh ud x).
Proof.
  intros c bx uw uh ud [H1 [H2 [H3 [H4 [H5 [H6 [H7 [H8 [H9 [H10 H11]]]]]]]]]].
  split; [apply whole_inverse_of_forward; assumption | apply whole_forward_of_inverse; assumption].
Qed.
Print Assumptions C02_rq_whole_spline_round_trips.

(* ---- the whole piecewise-linear spline: the inverse branch (searchsorted on the cumulative table, the bin's line solved for
   x, clamp) undoes the forward branch (floor of the bin position, interpolation, clamp) and vice versa, on the whole box, for
   ANY unnormalised pdf and any non-degenerate box; the log-abs-dets are negatives of each other ---- *)
From NF Require Import Model.SplineLinear Proofs.SplineLinearWhole.
Theorem C02_linear_whole_spline_round_trips : forall (bx : @box R) (u : list R),
  u <> nil -> b_left bx < b_right bx -> b_bottom bx < b_top bx ->
  (forall x, b_left bx <= x <= b_right bx ->
     linear_spline Rops true bx u (FL bx u x) = Ok (x, - FLlad bx u x)) /\
  (forall y, b_bottom bx <= y <= b_top bx ->
     exists x l, linear_spline Rops true bx u y = Ok (x, l) /\ (b_left bx <= x <= b_right bx) /\
                 FL bx u x = y /\ l = - FLlad bx u x).
Proof.
  intros bx u H1 H2 H3. split; [intros x; apply linear_inverse_of_forward | intros y; apply linear_forward_of_inverse]; assumption.
Qed.
Print Assumptions C02_linear_whole_spline_round_trips.

(* ---- the whole piecewise-quadratic spline (bounded form): both round trips on the whole box with negated log-abs-dets, for every
   configuration the code accepts and ALL unnormalised parameters ---- *)
From NF Require Import Model.SplineQuadratic Proofs.SplineQuadWhole.
Theorem C02_quadratic_whole_spline_round_trips :
  forall (minw minh : R) (bx : @box R) (uw uh : list R),
  uw <> nil -> length uh = S (length uw) -> 0 <= minw -> minw * INR (length uw) <= 1 -> 0 <= minh -> minh * INR (length uw) <= 1 ->
  b_left bx < b_right bx -> b_bottom bx < b_top bx ->
  (forall x, b_left bx <= x <= b_right bx ->
     quadratic_spline Rops minw minh true bx uw uh (QF minw minh bx uw uh x) = Ok (x, - QFlad minw minh bx uw uh x)) /\
  (forall y, b_bottom bx <= y <= b_top bx ->
     exists x l, quadratic_spline Rops minw minh true bx uw uh y = Ok (x, l) /\ (b_left bx <= x <= b_right bx) /\
                 QF minw minh bx uw uh x = y /\ l = - QFlad minw minh bx uw uh x).
Proof.
  intros minw minh bx uw uh H1 H2 H3 H4 H5 H6 H7 H8.
  split; [intros x; apply quadratic_inverse_of_forward | intros y; apply quadratic_forward_of_inverse]; try assumption; left; assumption.
Qed.
Print Assumptions C02_quadratic_whole_spline_round_trips.

(* ---- elementwise nonlinearities: both round trips and the negated log-abs-det, from the generated formulas ---- *)
From NF Require Import Proofs.NonlinInv.
Theorem C02_tanh_sigmoid_cauchy_inverses :
  (forall x, tanh_inv_ret0 Rops (tanh_fwd_ret0 Rops x) = x) /\
  (forall y, -1 < y < 1 -> tanh_fwd_ret0 Rops (tanh_inv_ret0 Rops y) = y) /\
  (forall x, tanh_inv_ret1 Rops (tanh_fwd_ret0 Rops x) = - tanh_fwd_ret1 Rops x) /\
  (* the sigmoid's inverse clamps to [eps, 1 - eps]; inside the clamp it is exact for every temperature T > 0 *)
  (forall T eps x, 0 < T -> eps <= sig (T * x) <= 1 - eps -> sigm_inv_ret0 Rops (sigm_fwd_ret0 Rops x eps T) eps T = x) /\
  (forall T eps y, 0 < T -> 0 < eps -> eps <= y <= 1 - eps -> sigm_fwd_ret0 Rops (sigm_inv_ret0 Rops y eps T) eps T = y) /\
  (forall T eps x, 0 < T -> eps <= sig (T * x) <= 1 - eps ->
     sigm_inv_ret1 Rops (sigm_fwd_ret0 Rops x eps T) eps T = - sigm_fwd_ret1 Rops x eps T) /\
  (forall x, cauchy_inv_ret0 Rops (cauchy_fwd_ret0 Rops x) = x) /\
  (forall y, 0 < y < 1 -> cauchy_fwd_ret0 Rops (cauchy_inv_ret0 Rops y) = y) /\
  (forall y, cauchy_inv_ret1 Rops y = - cauchy_fwd_ret1 Rops (cauchy_inv_ret0 Rops y)).
Proof.
  repeat split.
  - apply tanh_inverse_of_forward.
  - apply tanh_forward_of_inverse; assumption.
  - apply sigmoid_inverse_of_forward; assumption.
  - apply sigmoid_forward_of_inverse; assumption.
  - apply sigmoid_logabsdets_negate; assumption.
  - apply cauchy_inverse_of_forward.
  - apply cauchy_forward_of_inverse; assumption.
Qed.
Print Assumptions C02_tanh_sigmoid_cauchy_inverses.

(* the context reaches every part: each call of a sub-transform, of its inverse, of a conditioner network or of the internal
   cascade inside the composite / multiscale / inverse wrappers, the coupling base class and the autoregressive base class hands
   on `context` (tables regenerated from the three source files on every run).  A part that is applied with the context in one
   direction and without it in the other is not inverted by its own inverse. *)
From NF Require Gen.Context.
Theorem C02_the_context_reaches_every_part :
  List.forallb (fun r => snd r) Gen.Context.wrappers_context_forwarding = true /\
  List.forallb (fun r => snd r) Gen.Context.coupling_context_forwarding = true /\
  List.forallb (fun r => snd r) Gen.Context.autoregressive_context_forwarding = true.
Proof. repeat split; reflexivity. Qed.
Print Assumptions C02_the_context_reaches_every_part.
