(* C09 -- spline transformers are increasing bijections of their box, identity in tails.
   Statements only (real arithmetic). *)
From Coq Require Import Reals ZArith List Bool.
From NF Require Import Base.Ops Base.Rops Base.Result Gen.SplineRQ Gen.SplineLinear Gen.SplineQuadratic Gen.SplineCubic
  Model.Vec Model.SplineRQ Model.SplineLinear Model.SplineQuadratic Model.SplineCubic Proofs.SplineTails.
Import ListNotations.
Open Scope R_scope.

(* with linear tails every family is the identity with zero log-abs-det outside the tail
   bound, in both directions, for every parameter value and bin count *)
Theorem C09_tails_are_identity : forall x B : R, B < Rabs x ->
  (forall c inv uw uh ud, rq_unconstrained Rops c inv B uw uh ud x = Ok (x, 0)) /\
  (forall inv u, linear_unconstrained Rops inv B u x = Ok (x, 0)) /\
  (forall mw mh inv uw uh, quadratic_unconstrained Rops mw mh inv B uw uh x = Ok (x, 0)) /\
  (forall mw mh e t inv uw uh ul ur, cubic_unconstrained Rops mw mh e t inv B uw uh ul ur x = Ok (x, 0)).
Proof. exact tails_identity. Qed.
Print Assumptions C09_tails_are_identity.

(* the tail bound itself belongs to the spline: the interval routed to the spline is closed *)
Theorem C09_tail_interval_closed : forall x B : R,
  (rq_inside_tails Rops x B = true <-> - B <= x <= B) /\ (lin_inside_tails Rops x B = true <-> - B <= x <= B) /\
  (quad_inside_tails Rops x B = true <-> - B <= x <= B) /\ (cub_inside_tails Rops x B = true <-> - B <= x <= B).
Proof.
  intros x B. split; [apply rq_inside_iff|]. split; [apply lin_inside_iff|]. split; [apply quad_inside_iff | apply cub_inside_iff].
Qed.
Print Assumptions C09_tail_interval_closed.

(* the bounded splines accept exactly the closed interval of the direction they are applied in *)
Theorem C09_domain_is_closed_interval : forall x lo hi : R,
  (rq_rejects Rops x x lo hi = true <-> x < lo \/ hi < x) /\ (lin_rejects Rops x x lo hi = true <-> x < lo \/ hi < x) /\
  (quad_rejects Rops x x lo hi = true <-> x < lo \/ hi < x) /\ (cub_rejects Rops x x lo hi = true <-> x < lo \/ hi < x).
Proof. exact rejects_iff. Qed.
Print Assumptions C09_domain_is_closed_interval.

From Coquelicot Require Import Coquelicot.
From NF Require Import Proofs.SplineRQP.

(* The rational-quadratic bin, with the formulas generated from the source: for every bin
   (any left knot, width w > 0, height h > 0, end derivatives d0, d1 > 0) the map is strictly
   increasing on the bin, sends its two ends to the two ends of the output bin (hence is
   continuous across knots and pins the box end points), stays inside the output bin, and its
   derivative at the two ends is d0 and d1 (C1 across knots). *)
Theorem C09_rq_bin_increasing : forall xk w yk h d0 d1 : R, 0 < w -> 0 < h -> 0 < d0 -> 0 < d1 ->
  forall a b, xk <= a -> a < b -> b <= xk + w -> fwd xk w yk h d0 d1 a < fwd xk w yk h d0 d1 b.
Proof. exact fwd_increasing. Qed.
Print Assumptions C09_rq_bin_increasing.

Theorem C09_rq_bin_end_points : forall xk w yk h d0 d1 : R, 0 < w -> 0 < h -> 0 < d0 -> 0 < d1 ->
  fwd xk w yk h d0 d1 xk = yk /\ fwd xk w yk h d0 d1 (xk + w) = yk + h.
Proof. intros xk w yk h d0 d1 Hw Hh H0 H1. split; [apply fwd_left | apply fwd_right]; assumption. Qed.
Print Assumptions C09_rq_bin_end_points.

Theorem C09_rq_bin_range : forall xk w yk h d0 d1 : R, 0 < w -> 0 < h -> 0 < d0 -> 0 < d1 ->
  forall x, xk <= x <= xk + w -> yk <= fwd xk w yk h d0 d1 x <= yk + h.
Proof. exact fwd_range. Qed.
Print Assumptions C09_rq_bin_range.

Theorem C09_rq_bin_C1_at_knots : forall xk w yk h d0 d1 : R, 0 < w -> 0 < h -> 0 < d0 -> 0 < d1 ->
  deriv xk w h d0 d1 xk = d0 /\ deriv xk w h d0 d1 (xk + w) = d1 /\
  forall x, xk <= x <= xk + w -> is_derive (fwd xk w yk h d0 d1) x (deriv xk w h d0 d1 x) /\ 0 < deriv xk w h d0 d1 x.
Proof.
  intros xk w yk h d0 d1 Hw Hh H0 H1. split; [apply deriv_left; assumption|]. split; [apply deriv_right; assumption|].
  intros x Hx. split; [apply fwd_derive | apply deriv_pos]; assumption.
Qed.
Print Assumptions C09_rq_bin_C1_at_knots.

(* the bin is onto its output bin: every y in [yk, yk+h] has a pre-image in the bin *)
Theorem C09_rq_bin_onto : forall xk w yk h d0 d1 : R, 0 < w -> 0 < h -> 0 < d0 -> 0 < d1 ->
  forall y, yk <= y <= yk + h ->
    xk <= inv xk w yk h d0 d1 y <= xk + w /\ fwd xk w yk h d0 d1 (inv xk w yk h d0 d1 y) = y.
Proof.
  intros xk w yk h d0 d1 Hw Hh H0 H1 y Hy. split; [apply inv_in_bin | apply fwd_inv]; assumption.
Qed.
Print Assumptions C09_rq_bin_onto.

Example C09_bin_hypotheses_satisfiable : 0 < 1 / 2 /\ 0 < 1 / 3 /\ 0 < 1 /\ 0 < 2.
Proof. repeat split; Lra.lra. Qed.

From NF Require Import Proofs.SplineLQP.

(* piecewise-linear bin (normalised coordinates, K bins, pdf value p > 0, left cdf value c):
   increasing, maps the bin's ends to the cdf values at its ends *)
Theorem C09_linear_bin : forall K k p c : R, 0 < K -> 0 < p ->
  (forall a b, a < b -> lin_raw K k p c a < lin_raw K k p c b) /\
  lin_raw K k p c (k / K) = c /\ lin_raw K k p c ((k + 1) / K) = c + p /\
  (forall x, 0 <= lin_raw K k p c x <= 1 -> lin_fwd_outputs Rops x K k p c = lin_raw K k p c x).
Proof.
  intros K k p c HK Hp. split; [intros a b; apply lin_raw_increasing; assumption|].
  destruct (lin_raw_ends K k p c HK) as [E1 E2]. split; [exact E1|]. split; [exact E2|].
  intros x Hx. apply lin_fwd_outputs_eq. exact Hx.
Qed.
Print Assumptions C09_linear_bin.

(* piecewise-quadratic bin (location l, width w > 0, heights hl, hr > 0): increasing on the bin, left end
   maps to the left cdf value, right end to left cdf + trapezoid area = the next cdf value *)
Theorem C09_quadratic_bin : forall l w c0 hl hr : R, 0 < w -> 0 < hl -> 0 < hr ->
  (forall a b, l <= a -> a < b -> b <= l + w -> q_raw l w c0 hl hr a < q_raw l w c0 hl hr b) /\
  q_raw l w c0 hl hr l = c0 /\ q_raw l w c0 hl hr (l + w) = c0 + (hl + hr) / 2 * w.
Proof.
  intros l w c0 hl hr Hw Hl Hr. split; [intros a b; apply q_raw_increasing; assumption|].
  apply q_raw_ends. exact Hw.
Qed.
Print Assumptions C09_quadratic_bin.

(* NOT PROVED here (labelled partial in MANIFEST/evidence): (i) the assembly of the bins into the
   whole spline through the knot construction from unnormalised parameters and the bin search --
   the knots' strict monotonicity from softmax/cumsum -- and (ii) monotonicity of the cubic (Steffen)
   bin.  Both are covered by the correspondence and the search on the implementation only. *)

(* ---- the WHOLE rational-quadratic spline: knot construction (softmax -> affine -> cumulative sums -> scaling to the box ->
   pinned ends), bin search and per-bin formula together.  For every configuration the code accepts (non-negative minimum
   sizes with min * K <= 1, non-negative minimum derivative, positive softplus parameter, a non-degenerate box) and for ALL
   unnormalised widths, heights and derivatives: every input of [left, right] is accepted, its image lies in [bottom, top],
   the log-abs-det is the logarithm of a positive number, the end points are pinned, the map is strictly increasing on the
   whole interval (across bins), and the inverse branch is its two-sided inverse with negated log-abs-det - so it is an
   increasing bijection of the box. *)
From NF Require Import Base.Result Model.SplineRQ Proofs.SplineRQWhole.

Theorem C09_rq_whole_spline_is_an_increasing_bijection :
  forall (c : @rq_cfg R) (bx : @box R) (uw uh ud : list R), rq_wellformed c bx uw uh ud ->
  (forall x, b_left bx <= x <= b_right bx ->
     exists y l, rq_spline Rops c false bx uw uh ud x = Ok (y, l) /\ (b_bottom bx <= y <= b_top bx) /\ (exists d, 0 < d /\ l = ln d)) /\
  (F c bx uw uh ud (b_left bx) = b_bottom bx /\ F c bx uw uh ud (b_right bx) = b_top bx) /\
  (forall a b, b_left bx <= a -> a < b -> b <= b_right bx -> F c bx uw uh ud a < F c bx uw uh ud b) /\
  (forall x, b_left bx <= x <= b_right bx ->
     rq_spline Rops c true bx uw uh ud (F c bx uw uh ud x) = Ok (x, - Flad c bx uw uh ud x)) /\
  (forall y, b_bottom bx <= y <= b_top bx ->
     exists x l, rq_spline Rops c true bx uw uh ud y = Ok (x, l) /\ (b_left bx <= x <= b_right bx) /\
                 F c bx uw uh ud x = y /\ l = - Flad c bx uw uh ud x).
Proof.
  intros c bx uw uh ud [H1 [H2 [H3 [H4 [H5 [H6 [H7 [H8 [H9 [H10 H11]]]]]]]]]].
  split; [apply whole_forward_range; assumption|]. split; [apply whole_end_points; assumption|].
  split; [apply whole_increasing; assumption|]. split; [apply whole_inverse_of_forward; assumption | apply whole_forward_of_inverse; assumption].
Qed.
Print Assumptions C09_rq_whole_spline_is_an_increasing_bijection.

(* the hypotheses are met by the library's default configuration for any box, up to 1000 bins and ANY parameter values *)
Theorem C09_rq_default_configuration_is_wellformed : forall (bx : @box R) (uw uh ud : list R),
  (0 < length uw <= 1000)%nat -> length uh = length uw -> length ud = S (length uw) ->
  b_left bx < b_right bx -> b_bottom bx < b_top bx -> rq_wellformed (rq_default_cfg Rops) bx uw uh ud.
Proof. exact default_wellformed. Qed.
Print Assumptions C09_rq_default_configuration_is_wellformed.

(* ---- the WHOLE piecewise-linear spline, forward direction: for ANY unnormalised pdf and any non-degenerate box every input of
   [left, right] is accepted (the floor of the bin position is a valid bin), the image lies in [bottom, top], the log-abs-det
   is the logarithm of a positive slope, the end points are pinned and the map is strictly increasing across bins ---- *)
From NF Require Import Model.SplineLinear Proofs.SplineLinearWhole.
Theorem C09_linear_whole_spline_is_increasing_onto : forall (bx : @box R) (u : list R),
  u <> [] -> b_left bx < b_right bx -> b_bottom bx < b_top bx ->
  (forall x, b_left bx <= x <= b_right bx ->
     exists y l, linear_spline Rops false bx u x = Ok (y, l) /\ (b_bottom bx <= y <= b_top bx) /\ (exists d, 0 < d /\ l = ln d)) /\
  (FL bx u (b_left bx) = b_bottom bx /\ FL bx u (b_right bx) = b_top bx) /\
  (forall a b, b_left bx <= a -> a < b -> b <= b_right bx -> FL bx u a < FL bx u b).
Proof. intros bx u H1 H2 H3. apply linear_whole; assumption. Qed.
Print Assumptions C09_linear_whole_spline_is_increasing_onto.

(* ... and it is ONTO [bottom, top], with the inverse branch as its two-sided inverse: together with the statement above the whole
   piecewise-linear spline is a strictly increasing bijection of [left, right] onto [bottom, top] for any unnormalised pdf *)
Theorem C09_linear_whole_spline_is_a_bijection : forall (bx : @box R) (u : list R),
  u <> [] -> b_left bx < b_right bx -> b_bottom bx < b_top bx ->
  (forall y, b_bottom bx <= y <= b_top bx ->
     exists x l, linear_spline Rops true bx u y = Ok (x, l) /\ (b_left bx <= x <= b_right bx) /\ FL bx u x = y) /\
  (forall x, b_left bx <= x <= b_right bx -> exists l, linear_spline Rops true bx u (FL bx u x) = Ok (x, l)).
Proof.
  intros bx u H1 H2 H3. split.
  - intros y Hy. destruct (linear_forward_of_inverse bx u H1 H2 H3 y Hy) as [x [l [E [Hx [Hf _]]]]]. exists x, l. repeat split; assumption || apply Hx.
  - intros x Hx. eexists. apply linear_inverse_of_forward; assumption.
Qed.
Print Assumptions C09_linear_whole_spline_is_a_bijection.

(* ---- the WHOLE piecewise-quadratic spline (bounded form, K + 1 unnormalised heights): for the configuration checks the code
   makes (0 <= min_bin_width, min_bin_width * K <= 1, the same for the height) and ALL unnormalised parameters, the bin widths
   are positive and sum to one, the node heights are positive and normalised so that the trapezoid areas sum to one, both
   cumulative tables are strictly increasing from 0 to 1, and the whole spline is a strictly increasing bijection of
   [left, right] onto [bottom, top] with pinned end points whose inverse branch (stable quadratic root) is its two-sided inverse ---- *)
From NF Require Import Model.SplineQuadratic Proofs.SplineQuadWhole.
Theorem C09_quadratic_whole_spline_is_an_increasing_bijection :
  forall (minw minh : R) (bx : @box R) (uw uh : list R),
  uw <> [] -> length uh = S (length uw) -> 0 <= minw -> minw * INR (length uw) <= 1 -> 0 <= minh -> minh * INR (length uw) <= 1 ->
  b_left bx < b_right bx -> b_bottom bx < b_top bx ->
  (forall x, b_left bx <= x <= b_right bx ->
     exists y l, quadratic_spline Rops minw minh false bx uw uh x = Ok (y, l) /\ (b_bottom bx <= y <= b_top bx) /\ (exists d, 0 < d /\ l = ln d)) /\
  (QF minw minh bx uw uh (b_left bx) = b_bottom bx /\ QF minw minh bx uw uh (b_right bx) = b_top bx) /\
  (forall a b, b_left bx <= a -> a < b -> b <= b_right bx -> QF minw minh bx uw uh a < QF minw minh bx uw uh b) /\
  (forall y, b_bottom bx <= y <= b_top bx ->
     exists x l, quadratic_spline Rops minw minh true bx uw uh y = Ok (x, l) /\ (b_left bx <= x <= b_right bx) /\ QF minw minh bx uw uh x = y).
Proof.
  intros minw minh bx uw uh H1 H2 H3 H4 H5 H6 H7 H8.
  destruct (quadratic_whole minw minh bx uw uh H1 (or_introl H2) H3 H4 H5 H6 H7 H8) as [A [B C]].
  split; [exact A|]. split; [exact B|]. split; [exact C|].
  intros y Hy. destruct (quadratic_forward_of_inverse minw minh bx uw uh H1 (or_introl H2) H3 H4 H5 H6 H7 H8 y Hy) as [x [l [E [Hx [Hf _]]]]].
  exists x, l. split; [exact E|]. split; [exact Hx | exact Hf].
Qed.
Print Assumptions C09_quadratic_whole_spline_is_an_increasing_bijection.

(* ---- the UNCONSTRAINED rational-quadratic spline (linear tails): the identity outside [-B, B], the whole-spline bijection
   inside; the two meet at +-B, so the map is strictly increasing on the whole real line and takes every value ---- *)
From NF Require Import Proofs.SplineRQTails.
Theorem C09_rq_unconstrained_is_an_increasing_bijection_of_the_line :
  forall (c : @rq_cfg R) (B : R) (uw uh ud : list R), 0 < B ->
  rq_wellformed c {| b_left := - B; b_right := B; b_bottom := - B; b_top := B |} uw uh
                (rq_tail_constant Rops (min_derivative c) :: ud ++ (rq_tail_constant Rops (min_derivative c) :: nil)) ->
  (U c B uw uh ud (- B) = - B /\ U c B uw uh ud B = B) /\
  (forall a b, a < b -> U c B uw uh ud a < U c B uw uh ud b) /\
  (forall y, exists x, U c B uw uh ud x = y).
Proof.
  intros c B uw uh ud HB Hwf. split; [apply tails_meet_the_spline; assumption|].
  split; [intros a b; apply unconstrained_increasing; assumption | intros y; apply unconstrained_onto; assumption].
Qed.
Print Assumptions C09_rq_unconstrained_is_an_increasing_bijection_of_the_line.

(* ---- one bin of the CUBIC spline (generated coefficients and formulas): pinned end points, the stated end derivatives, and
   strict monotonicity whenever both end derivatives lie strictly between 0 and three times the bin's slope; the generated
   derivative formulas always do (boundary knots: sigmoid * 3 * slope; inner knots: Steffen's limiter <= 2 * the smaller slope) ---- *)
From NF Require Import Proofs.SplineCubicP.
Theorem C09_cubic_bin : forall xl w yl h dl dr : R, 0 < w -> 0 < h ->
  (cfwd xl w yl h dl dr xl = yl /\ cfwd xl w yl h dl dr (xl + w) = yl + h) /\
  (cder xl w h dl dr xl = dl /\ cder xl w h dl dr (xl + w) = dr) /\
  (0 < dl < 3 * (h / w) -> 0 < dr < 3 * (h / w) ->
   (forall x, xl <= x <= xl + w -> 0 < cder xl w h dl dr x) /\
   (forall p q, xl <= p -> p < q -> q <= xl + w -> cfwd xl w yl h dl dr p < cfwd xl w yl h dl dr q)).
Proof.
  intros xl w yl h dl dr Hw Hh. split; [apply cubic_end_points; assumption|]. split; [apply cubic_end_derivatives; assumption|].
  intros Hl Hr. split; [intros x Hx; apply cubic_derivative_positive; assumption | intros p q; apply cubic_increasing; assumption].
Qed.
Print Assumptions C09_cubic_bin.

Theorem C09_cubic_derivatives_are_admissible :
  (forall u sl, 0 < sl -> 0 < cub_derivative_left Rops u sl < 3 * sl /\ 0 < cub_derivative_right Rops u sl < 3 * sl) /\
  (forall s1 s2 w1 w2, 0 < s1 -> 0 < s2 -> 0 < w1 -> 0 < w2 ->
     let d := cub_inner_derivative Rops (cub_min_something Rops (cub_min_something_1 Rops s1 s2 w1 w2) (cub_min_something_2 Rops s1 s2 w1 w2)) s1 s2 w1 w2 in
     0 < d /\ d <= 2 * s1 /\ d <= 2 * s2).
Proof. split; [exact boundary_derivative_in_range | exact inner_derivative_in_range]. Qed.
Print Assumptions C09_cubic_derivatives_are_admissible.

(* ---- the WHOLE monotone-cubic (Steffen) spline, forward direction: for the configuration checks the code makes and ALL
   unnormalised parameters, every input of the box is accepted (valid bin), mapped into [bottom, top] with a log-abs-det that is
   the logarithm of a positive derivative, the end points are pinned and the map is strictly increasing across bins - because the
   generated boundary (sigmoid * 3 * slope) and interior (Steffen limiter) derivatives are admissible for BOTH adjacent bins.  The
   inverse branch is not claimed: its root selection is the recorded known finding. ---- *)
From NF Require Import Model.SplineCubic Proofs.SplineCubicWhole.
Theorem C09_cubic_whole_spline_forward_is_increasing_onto_its_range :
  forall (minw minh eps thr : R) (bx : @box R) (uw uh : list R) (ul ur : R),
  uw <> [] -> length uh = length uw -> 0 <= minw -> minw * INR (length uw) <= 1 -> 0 <= minh -> minh * INR (length uw) <= 1 ->
  b_left bx < b_right bx -> b_bottom bx < b_top bx ->
  (forall x, b_left bx <= x <= b_right bx ->
     exists y l, cubic_spline Rops minw minh eps thr false bx uw uh ul ur x = Ok (y, l) /\ (b_bottom bx <= y <= b_top bx) /\
                 (exists d, 0 < d /\ l = ln d)) /\
  (CF minw minh eps thr bx uw uh ul ur (b_left bx) = b_bottom bx /\ CF minw minh eps thr bx uw uh ul ur (b_right bx) = b_top bx) /\
  (forall a b, b_left bx <= a -> a < b -> b <= b_right bx -> CF minw minh eps thr bx uw uh ul ur a < CF minw minh eps thr bx uw uh ul ur b).
Proof. intros minw minh eps thr bx uw uh ul ur H1 H2 H3 H4 H5 H6 H7 H8. apply cubic_whole; assumption. Qed.
Print Assumptions C09_cubic_whole_spline_forward_is_increasing_onto_its_range.

(* ---- the UNCONSTRAINED piecewise-linear and piecewise-quadratic splines (linear tails): identity outside [-B, B], the whole-spline
   bijection inside, meeting at +-B: strictly increasing maps of the whole real line that take every value.  The quadratic form
   is the one the tails wrapper builds (K - 1 unnormalised heights, boundary heights computed by the code); it needs two bins. ---- *)
From NF Require Import Proofs.SplineLinearTails Proofs.SplineQuadTails.
Theorem C09_linear_unconstrained_is_an_increasing_bijection_of_the_line : forall (B : R) (u : list R), 0 < B -> u <> [] ->
  (UL B u (- B) = - B /\ UL B u B = B) /\ (forall a b, a < b -> UL B u a < UL B u b) /\ (forall y, exists x, UL B u x = y).
Proof.
  intros B u HB Hne. split; [apply lin_tails_meet; assumption|].
  split; [intros a b; apply lin_unconstrained_increasing; assumption | intros y; apply lin_unconstrained_onto; assumption].
Qed.
Print Assumptions C09_linear_unconstrained_is_an_increasing_bijection_of_the_line.

Theorem C09_quadratic_unconstrained_is_an_increasing_bijection_of_the_line :
  forall (minw minh B : R) (uw uh : list R), 0 < B -> uw <> [] -> (2 <= length uw)%nat -> length uh = (length uw - 1)%nat ->
  0 <= minw -> minw * INR (length uw) <= 1 -> 0 <= minh -> minh * INR (length uw) <= 1 ->
  (UQ minw minh B uw uh (- B) = - B /\ UQ minw minh B uw uh B = B) /\
  (forall a b, a < b -> UQ minw minh B uw uh a < UQ minw minh B uw uh b) /\ (forall y, exists x, UQ minw minh B uw uh x = y).
Proof.
  intros minw minh B uw uh HB H1 H2 H3 H4 H5 H6 H7. split; [apply quad_tails_meet; assumption|].
  split; [intros a b; apply quad_unconstrained_increasing; assumption | intros y; apply quad_unconstrained_onto; assumption].
Qed.
Print Assumptions C09_quadratic_unconstrained_is_an_increasing_bijection_of_the_line.

(* the unconstrained cubic spline, forward direction: the tails meet the spline at +-B and the map is strictly increasing on the line *)
From NF Require Import Proofs.SplineCubicTails.
Theorem C09_cubic_unconstrained_forward_is_increasing_on_the_line :
  forall (minw minh eps thr B : R) (uw uh : list R) (ul ur : R), 0 < B -> uw <> [] -> length uh = length uw ->
  0 <= minw -> minw * INR (length uw) <= 1 -> 0 <= minh -> minh * INR (length uw) <= 1 ->
  (UC minw minh eps thr B uw uh ul ur (- B) = - B /\ UC minw minh eps thr B uw uh ul ur B = B) /\
  (forall a b, a < b -> UC minw minh eps thr B uw uh ul ur a < UC minw minh eps thr B uw uh ul ur b).
Proof. intros. apply cub_tails_meet_and_increase; assumption. Qed.
Print Assumptions C09_cubic_unconstrained_forward_is_increasing_on_the_line.

