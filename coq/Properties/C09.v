(* C09 -- spline transformers are increasing bijections of their box, identity in tails.
   Statements only (real arithmetic). *)
From Coq Require Import Reals ZArith List Bool.
From NF Require Import Base.Ops Base.Rops Base.Result Gen.SplineRQ Gen.SplineLinear Gen.SplineQuadratic Gen.SplineCubic
  Model.Vec Model.SplineRQ Model.SplineLinear Model.SplineQuadratic Model.SplineCubic Proofs.SplineTails.
Import ListNotations.
Open Scope R_scope.

(* with linear tails every family is the identity with zero log-abs-det outside the tail
   bound, in both directions, for every parameter value and bin count *)
Theorem C09_tails_are_identity : forall x B : R, B < Rabs x ->
  (forall c inv uw uh ud, rq_unconstrained Rops c inv B uw uh ud x = Ok (x, 0)) /\
  (forall inv u, linear_unconstrained Rops inv B u x = Ok (x, 0)) /\
  (forall mw mh inv uw uh, quadratic_unconstrained Rops mw mh inv B uw uh x = Ok (x, 0)) /\
  (forall mw mh e t inv uw uh ul ur, cubic_unconstrained Rops mw mh e t inv B uw uh ul ur x = Ok (x, 0)).
Proof. exact tails_identity. Qed.
Print Assumptions C09_tails_are_identity.

(* the tail bound itself belongs to the spline: the interval routed to the spline is closed *)
Theorem C09_tail_interval_closed : forall x B : R,
  (rq_inside_tails Rops x B = true <-> - B <= x <= B) /\ (lin_inside_tails Rops x B = true <-> - B <= x <= B) /\
  (quad_inside_tails Rops x B = true <-> - B <= x <= B) /\ (cub_inside_tails Rops x B = true <-> - B <= x <= B).
Proof.
  intros x B. split; [apply rq_inside_iff|]. split; [apply lin_inside_iff|]. split; [apply quad_inside_iff | apply cub_inside_iff].
Qed.
Print Assumptions C09_tail_interval_closed.
