(* C15 -- saving and reloading a model reproduces the same function.  Statements only; axiom-free.
   [attr_table] is regenerated from every class's __init__ on each run: one row per `self.x = ...` /
   register_buffer with its kind and whether its right-hand side draws from a random source. *)
From Coq Require Import String List Bool.
From NF Require Import Gen.Tables Model.Tables Proofs.TablesP.
Import ListNotations.

(* everything constructor-random is a parameter, a persistent buffer, or a sub-module (which carries its own
   registered state); RandomPermutation hands its draw to Permutation, which registers it *)
Theorem C15_constructor_randomness_is_registered : forallb attr_ok attr_table = true.
Proof. exact attr_table_ok. Qed.
Print Assumptions C15_constructor_randomness_is_registered.

(* if no unregistered attribute depends on the seed, load_state_dict into a model built under ANY seed gives the
   same function, whatever happened to the registered state before saving *)
Theorem C15_reload_same_function :
  forall (Cfg Seed Reg Plain Out In : Type) (init_reg : Cfg -> Seed -> Reg) (plain : Cfg -> Seed -> Plain)
         (apply : Reg -> Plain -> In -> Out),
    (forall c s s', plain c s = plain c s') ->
    forall c s s' (trained : Reg) (x : In),
      let m := (trained, plain c s) in
      apply (fst (load _ _ (state_dict _ _ m) (fresh _ _ _ _ init_reg plain c s')))
            (snd (load _ _ (state_dict _ _ m) (fresh _ _ _ _ init_reg plain c s'))) x
      = apply (fst m) (snd m) x.
Proof. intros Cfg Seed Reg Plain Out In init_reg plain apply. exact (reload_same_function Cfg Seed Reg Plain Out In init_reg plain apply). Qed.
Print Assumptions C15_reload_same_function.

(* the registration requirement is necessary: a seed-dependent plain attribute read by the function breaks reload *)
Theorem C15_unregistered_randomness_breaks_reload :
  forall (Cfg Seed Reg Plain Out In : Type) (init_reg : Cfg -> Seed -> Reg) (plain : Cfg -> Seed -> Plain)
         (apply : Reg -> Plain -> In -> Out) c s s' (trained : Reg) (x : In),
    apply trained (plain c s') x <> apply trained (plain c s) x ->
    let m := (trained, plain c s) in
    apply (fst (load _ _ (state_dict _ _ m) (fresh _ _ _ _ init_reg plain c s')))
          (snd (load _ _ (state_dict _ _ m) (fresh _ _ _ _ init_reg plain c s'))) x
    <> apply (fst m) (snd m) x.
Proof. intros Cfg Seed Reg Plain Out In init_reg plain apply. exact (reload_needs_registration Cfg Seed Reg Plain Out In init_reg plain apply). Qed.
Print Assumptions C15_unregistered_randomness_breaks_reload.
