(* Expression trees for the matrix-valued methods of the linear family (nflows/transforms/{lu,qr,svd,linear}.py).
   The translator turns weight(), weight_inverse(), forward_no_cache(), inverse_no_cache() and logabsdet() of each class into
   terms of these types (Gen/LinearFamily.v); Proofs/MatExprP.v gives them a meaning over mathcomp matrices. *)
From Coq Require Import List.

(* matrices (a batch of row vectors is a matrix whose rows are the items) *)
Inductive mexpr : Type :=
| EIn                                             (* the inputs *)
| ELower | EUpper                                 (* what _create_lower_upper / _create_upper return *)
| EW                                              (* NaiveLinear's weight parameter *)
| EDiag (reciprocal : bool)                       (* torch.diag(self.diagonal) / torch.diag(torch.reciprocal(self.diagonal)) *)
| EEye
| EMul (a b : mexpr)                              (* a @ b *)
| ETr (a : mexpr)                                 (* a.t() *)
| ESolve (upper unit : bool) (a b : mexpr)        (* torch.linalg.solve_triangular(a, b, upper=, unitriangular=) *)
| EInv (a : mexpr)                                (* torch.inverse(a), torch.lu_solve(identity, *torch.lu(a)) *)
| ELuSolve (a b : mexpr)                          (* torch.lu_solve(b, *torch.lu(a)) = a^-1 b *)
| ELinear (x m : mexpr) (bias : bool)             (* F.linear(x, m[, self.bias]) *)
| EOrth (k : nat) (inverse : bool) (x : mexpr)    (* self.orthogonal_k(x)[0] / self.orthogonal_k.inverse(x)[0], row by row *)
| EBias (subtract : bool) (x : mexpr)             (* x + self.bias / x - self.bias *)
| EScale (divide : bool) (x : mexpr).             (* x * self.diagonal / x / self.diagonal, row by row *)

(* scalars: log-abs-dets *)
Inductive sexpr : Type :=
| SLogAbsDet                                      (* self.logabsdet() *)
| SSumLogDiag                                     (* torch.sum(torch.log(self.upper_diag)) / sum(log_upper_diag) / sum(log_diagonal) *)
| SSlogdetW                                       (* torchutils.logabsdet(self._weight) *)
| SSumLogAbsDiagLU                                (* torch.sum(torch.log(torch.abs(torch.diag(lu)))) for lu = torch.lu(W) *)
| SNeg (s : sexpr).
