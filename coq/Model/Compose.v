(* CompositeTransform, InverseTransform and MultiscaleCompositeTransform
   (nflows/transforms/base.py), per batch item.  A transform is a pair of
   functions on flat row-major data returning the new data and a log-det in an
   arbitrary type L with an addition; wrappers are combinators on such pairs, so
   every nesting of wrappers is a term built from them. *)
From Coq Require Import List Arith Bool Lia.
From NF Require Import Base.Result Model.Utils.
Import ListNotations.

Section Compose.
  Context {X L : Type}.
  Variables (ladd : L -> L -> L) (lzero : L).

  Record tr := mkTr { fwd : X -> X * L; inv : X -> X * L }.

  (* CompositeTransform._cascade: run the functions in order, summing log-dets *)
  Definition step_acc (acc : X * L) (f : X -> X * L) : X * L :=
    let (y, l) := f (fst acc) in (y, ladd (snd acc) l).
  Definition cascade (fs : list (X -> X * L)) (x : X) : X * L :=
    fold_left step_acc fs (x, lzero).

  Definition comp (ts : list tr) : tr :=
    {| fwd := cascade (map fwd ts); inv := cascade (map inv (rev ts)) |}.

  Definition inverse_of (t : tr) : tr := {| fwd := inv t; inv := fwd t |}.
End Compose.
Arguments tr X L : clear implicits.

(* ---- splitting a per-item tensor in two along one dimension ---- *)
Section Split.
  Context {A : Type}.

  (* shape = outer ++ [n] ++ inner, O = prod outer, I = prod inner; the first
     part takes the first c positions along the split dimension *)
  Definition split_dim (O n I c : nat) (x : list A) : list A * list A :=
    let bs := chunks (n * I) O x in
    (concat (map (firstn (c * I)) bs), concat (map (skipn (c * I)) bs)).

  Fixpoint zip_app (a b : list (list A)) : list (list A) :=
    match a, b with
    | x :: a', y :: b' => (x ++ y) :: zip_app a' b'
    | _, _ => []
    end.

  Definition cat_dim (O c1 c2 I : nat) (a b : list A) : list A :=
    concat (zip_app (chunks (c1 * I) O a) (chunks (c2 * I) O b)).
End Split.

(* ---- MultiscaleCompositeTransform ---- *)
Definition dim_split (sh : list nat) (d : nat) : nat * nat * nat :=
  (prod (firstn (d - 1) sh), nth (d - 1) sh 0, prod (skipn d sh)).

(* add_transform: bookkeeping of output / hidden shapes with its error cases.
   [count] transforms were added before; [num] is the announced total. *)
Definition add_transform (split_d num count : nat) (sh : list nat)
  : result (list nat * option (list nat)) :=
  if Nat.eqb count num then RuntimeErr
  else if Nat.leb (length sh) (split_d - 1) then ValueErr
  else if Nat.ltb (nth (split_d - 1) sh 0) 2 then ValueErr
  else if negb (Nat.eqb (S count) num)
       then let n := nth (split_d - 1) sh 0 in
            let set v := firstn (split_d - 1) sh ++ [v] ++ skipn split_d sh in
            Ok (set ((n + 1) / 2), Some (set (n / 2)))
       else Ok (sh, None).

Section Multiscale.
  Context {A L : Type}.
  Variables (ladd : L -> L -> L) (lzero : L).
  Notation tr := (tr (list A) L).

  (* a stage: the transform and the (per-item) shape of its output, split dim d *)
  Notation stage := (tr * list nat)%type.

  Definition first_part (sh : list nat) (d : nat) : nat :=
    let '(q, n, r) := dim_split sh d in q * ((n + 1) / 2) * r.

  Fixpoint ms_forward (d : nat) (ss : list stage) (x : list A) : list A * L :=
    match ss with
    | [] => (x, lzero)
    | [(t, sh)] => fwd t x
    | (t, sh) :: rest =>
      let (y, l) := fwd t x in
      let '(q, n, r) := dim_split sh d in
      let (out, hid) := split_dim q n r ((n + 1) / 2) y in
      let (outs, l') := ms_forward d rest hid in
      (out ++ outs, ladd l l')
    end.

  Fixpoint ms_inverse (d : nat) (ss : list stage) (z : list A) : list A * L :=
    match ss with
    | [] => (z, lzero)
    | [(t, sh)] => inv t z
    | (t, sh) :: rest =>
      let '(q, n, r) := dim_split sh d in
      let k := q * ((n + 1) / 2) * r in
      let (hid, l') := ms_inverse d rest (skipn k z) in
      let (x, l) := inv t (cat_dim q ((n + 1) / 2) (n / 2) r (firstn k z) hid) in
      (x, ladd l' l)
    end.
End Multiscale.
