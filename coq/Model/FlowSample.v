(* Flow._sample / sample_and_log_prob (nflows/flows/base.py): pairing of noise, context rows and samples.
   noise is the base distribution's draw of shape [k, n] (k context rows, n draws each), given as a list of
   rows; the pipeline merges the two leading dims, repeats each context row n times, inverts, splits back. *)
From Coq Require Import List Arith.
From NF Require Import Model.Utils.
Import ListNotations.

Section FlowSample.
  Context {Z C X : Type}.
  Variable inv : Z -> C -> X.                (* transform.inverse on one row with its (embedded) context row *)

  Fixpoint zip_with {A B D} (f : A -> B -> D) (a : list A) (b : list B) : list D :=
    match a, b with x :: a', y :: b' => f x y :: zip_with f a' b' | _, _ => [] end.

  Definition flow_sample (n : nat) (noise : list (list Z)) (ctx : list C) : list (list X) :=
    let merged := concat noise in                                  (* merge_leading_dims(noise, 2) *)
    let rep_ctx := flat_map (fun c => repeat c n) ctx in           (* repeat_rows(context, n) *)
    let samples := zip_with inv merged rep_ctx in
    chunks n (length ctx) samples.                                 (* split_leading_dim(samples, [-1, n]) *)
End FlowSample.
