(* Elementwise nonlinearities (nflows/transforms/nonlinearities.py), one element.
   Formulas and guards are GENERATED (Gen/Nonlin.v); routing by masks is here. *)
From Coq Require Import ZArith List Bool.
From NF Require Import Base.Ops Base.Result Gen.Nonlin.
Import ListNotations.

Section Nonlin.
  Context {T : Type} (O : ops T).

  Definition guarded (g : bool) (rej : bool) (v : T * T) : result (T * T) :=
    if g && rej then OutsideDomain else Ok v.

  Definition exp_t (inverse : bool) (x : T) : result (T * T) :=
    if inverse then guarded guarded_Exp_inverse (exp_inv_rejects O x x) (exp_inv_ret0 O x, exp_inv_ret1 O x)
    else Ok (exp_fwd_ret0 O x, exp_fwd_ret1 O x).
  Definition tanh_t (inverse : bool) (x : T) : result (T * T) :=
    if inverse then guarded guarded_Tanh_inverse (tanh_inv_rejects O x x) (tanh_inv_ret0 O x, tanh_inv_ret1 O x)
    else Ok (tanh_fwd_ret0 O x, tanh_fwd_ret1 O x).
  Definition cauchy_t (inverse : bool) (x : T) : result (T * T) :=
    if inverse then guarded guarded_CauchyCDF_inverse (cauchy_inv_rejects O x x) (cauchy_inv_ret0 O x, cauchy_inv_ret1 O x)
    else Ok (cauchy_fwd_ret0 O x, cauchy_fwd_ret1 O x).
  Definition sigmoid_t (temperature eps : T) (inverse : bool) (x : T) : result (T * T) :=
    if inverse
    then guarded guarded_Sigmoid_inverse (sigm_inv_rejects O x x eps temperature)
                 (sigm_inv_ret0 O x eps temperature, sigm_inv_ret1 O x eps temperature)
    else Ok (sigm_fwd_ret0 O x eps temperature, sigm_fwd_ret1 O x eps temperature).

  (* LogTanh: constants from the constructor, three pieces selected by the two masks *)
  Record logtanh_cfg := { lt_cut : T; lt_inv_cut : T; lt_alpha : T; lt_beta : T }.
  Definition logtanh_make (cut : T) : logtanh_cfg :=
    let alpha := logtanh_const_alpha O cut (o_zero O) in
    {| lt_cut := cut; lt_inv_cut := logtanh_const_inv_cut_point O cut alpha; lt_alpha := alpha;
       lt_beta := logtanh_const_beta O cut alpha |}.
  Definition logtanh_t (c : logtanh_cfg) (inverse : bool) (x : T) : result (T * T) :=
    let a := lt_alpha c in let b := lt_beta c in let cp := lt_cut c in let icp := lt_inv_cut c in
    let z := o_zero O in
    if inverse then
      if logtanh_inv_mask_right O x a b cp icp
      then Ok (logtanh_inv_outputs_at_mask_right O x z a b cp icp, logtanh_inv_logabsdet_at_mask_right O x z a b cp icp)
      else if logtanh_inv_mask_left O x a b cp icp
      then Ok (logtanh_inv_outputs_at_mask_left O x z a b cp icp, logtanh_inv_logabsdet_at_mask_left O x z a b cp icp)
      else Ok (logtanh_inv_outputs_at_mask_middle O x z a b cp icp, logtanh_inv_logabsdet_at_mask_middle O x z a b cp icp)
    else
      if logtanh_fwd_mask_right O x a b cp icp
      then Ok (logtanh_fwd_outputs_at_mask_right O x z a b cp icp, logtanh_fwd_logabsdet_at_mask_right O x z a b cp icp)
      else if logtanh_fwd_mask_left O x a b cp icp
      then Ok (logtanh_fwd_outputs_at_mask_left O x z a b cp icp, logtanh_fwd_logabsdet_at_mask_left O x z a b cp icp)
      else
        (* the middle log-det reads outputs[mask_middle], i.e. the tanh just computed *)
        let y := logtanh_fwd_outputs_at_mask_middle O x z a b cp icp in
        Ok (y, logtanh_fwd_logabsdet_at_mask_middle O x y a b cp icp).

  (* LeakyReLU: F.leaky_relu(x, slope) = x if x >= 0 else slope * x; mask = (x < 0) *)
  Definition lrelu_t (slope : T) (inverse : bool) (x : T) : result (T * T) :=
    let neg := o_ltb O x (o_zero O) in
    let mask := if neg then o_one O else o_zero O in
    let logs := o_ln O slope in
    if inverse then Ok (if neg then o_mul O (o_div O (o_one O) slope) x else x, lrelu_inv_lad O mask logs)
    else Ok (if neg then o_mul O slope x else x, lrelu_fwd_lad O mask logs).

  (* GatedLinearUnit: one gate value (context) for the element *)
  Definition glu_t (inverse : bool) (x ctx : T) : result (T * T) :=
    if inverse then Ok (glu_inv_ret0 O x ctx, glu_inv_ret1 O x ctx) else Ok (glu_fwd_ret0 O x ctx, glu_fwd_ret1 O x ctx).
End Nonlin.
