(* State machine of the weight cache of nflows.transforms.linear.Linear (shared
   by LULinear, QRLinear, SVDLinear, NaiveLinear, OneByOneConvolution).
   A *version* names a value of the parameters; a cached entry remembers the
   version and dtype it was computed from and whether its autograd graph is
   still alive.  The branch conditions and fill logic are GENERATED. *)
From Coq Require Import List Bool Arith.
From NF Require Import Gen.LinearCache.
Import ListNotations.

Inductive dtype := F32 | F64.
Definition dtype_eqb (a b : dtype) : bool :=
  match a, b with F32, F32 | F64, F64 => true | _, _ => false end.

Record entry := { e_ver : nat; e_dt : dtype; e_alive : bool }.

Record st := {
  training : bool; usingc : bool;
  cw : option entry; ci : option entry; cl : option entry;
  ver : nat;          (* current parameter version *)
  dt : dtype;         (* current parameter dtype *)
  fresh : nat         (* next unused version number *)
}.

Inductive op :=
| Train | Eval | UseCache (b : bool)
| Forward | Inverse
| ForwardBackward | InverseBackward      (* forward/inverse followed by backward() to the inputs *)
| Update                                   (* optimiser step *)
| LoadState                                (* load_state_dict with other values *)
| ToDtype (d : dtype).                     (* .double() / .float(): parameters and inputs change dtype *)

(* what an evaluation is built from: (version, dtype) of the matrix and of the log-det *)
Inductive obs :=
| ONone
| OOut (mv : nat) (md : dtype) (lv : nat) (ld : dtype)
| OErr.                                    (* RuntimeError *)

Definition init : st :=
  {| training := true; usingc := false; cw := None; ci := None; cl := None; ver := 0; dt := F32; fresh := 1 |}.
Definition init_using (u : bool) : st :=
  {| training := true; usingc := u; cw := None; ci := None; cl := None; ver := 0; dt := F32; fresh := 1 |}.

Definition invalidate (s : st) : st :=
  if lin_invalidate_clears_all
  then {| training := training s; usingc := usingc s; cw := None; ci := None; cl := None;
          ver := ver s; dt := dt s; fresh := fresh s |}
  else s.

Definition is_none {A} (o : option A) : bool := match o with None => true | Some _ => false end.
Definition new_entry (s : st) : entry := {| e_ver := ver s; e_dt := dt s; e_alive := true |}.
Definition kill (o : option entry) : option entry :=
  match o with Some e => Some {| e_ver := e_ver e; e_dt := e_dt e; e_alive := false |} | None => None end.
Definition alive (o : option entry) : bool := match o with Some e => e_alive e | None => false end.

(* cached evaluation in one direction; [inv] selects which matrix field is used *)
Definition cached_eval (inv backward : bool) (s : st) : st * obs :=
  let m0 := if inv then ci s else cw s in
  let (fm, fl) := (if inv then lin_inverse_fill else lin_forward_fill) (is_none m0) (is_none (cl s)) in
  let m1 := if fm then Some (new_entry s) else m0 in
  let l1 := if fl then Some (new_entry s) else cl s in
  match m1, l1 with
  | Some em, Some el =>
    let o := if negb (dtype_eqb (e_dt em) (dt s)) then OErr          (* F.linear dtype mismatch *)
             else if backward && negb (e_alive em && e_alive el) then OErr   (* graph already freed *)
             else OOut (e_ver em) (e_dt em) (e_ver el) (e_dt el) in
    let dead := match o with OOut _ _ _ _ => backward | _ => false end in
    let m2 := if dead then kill m1 else m1 in
    let l2 := if dead then kill l1 else l1 in
    ({| training := training s; usingc := usingc s;
        cw := if inv then cw s else m2; ci := if inv then m2 else ci s; cl := l2;
        ver := ver s; dt := dt s; fresh := fresh s |}, o)
  | _, _ => (s, OErr)   (* unreachable: the fill logic leaves no field empty (proved) *)
  end.

Definition eval_op (inv backward : bool) (s : st) : st * obs :=
  if (if inv then lin_inverse_uses_cache else lin_forward_uses_cache) (training s) (usingc s)
  then cached_eval inv backward s
  else (s, OOut (ver s) (dt s) (ver s) (dt s)).

Definition set_params (s : st) (d : dtype) (newver : bool) : st :=
  {| training := training s; usingc := usingc s; cw := cw s; ci := ci s; cl := cl s;
     ver := if newver then fresh s else ver s; dt := d; fresh := if newver then S (fresh s) else fresh s |}.

Definition step (s : st) (o : op) : st * obs :=
  match o with
  | Train =>
    let s1 := if lin_train_invalidates then invalidate s else s in
    ({| training := true; usingc := usingc s1; cw := cw s1; ci := ci s1; cl := cl s1;
        ver := ver s1; dt := dt s1; fresh := fresh s1 |}, ONone)
  | Eval =>
    ({| training := false; usingc := usingc s; cw := cw s; ci := ci s; cl := cl s;
        ver := ver s; dt := dt s; fresh := fresh s |}, ONone)
  | UseCache b =>
    ({| training := training s; usingc := b; cw := cw s; ci := ci s; cl := cl s;
        ver := ver s; dt := dt s; fresh := fresh s |}, ONone)
  | Forward => eval_op false false s
  | Inverse => eval_op true false s
  | ForwardBackward => eval_op false true s
  | InverseBackward => eval_op true true s
  | Update => (set_params s (dt s) true, ONone)
  | LoadState =>
    let s1 := set_params s (dt s) true in
    (if lin_load_invalidates then invalidate s1 else s1, ONone)
  | ToDtype d =>
    let s1 := set_params s d false in
    (if lin_apply_invalidates then invalidate s1 else s1, ONone)
  end.

(* the uncached twin: same parameters, cache never consulted *)
Definition step_ref (s : st) (o : op) : st * obs :=
  step {| training := training s; usingc := false; cw := None; ci := None; cl := None;
          ver := ver s; dt := dt s; fresh := fresh s |} o.

Fixpoint run (s : st) (ops : list op) : list obs :=
  match ops with
  | [] => []
  | o :: r => let (s', ob) := step s o in ob :: run s' r
  end.

(* reference observations: what recomputing from the current parameters gives *)
Definition ref_obs (s : st) (o : op) : obs :=
  match o with
  | Forward | Inverse | ForwardBackward | InverseBackward => OOut (ver s) (dt s) (ver s) (dt s)
  | _ => ONone
  end.
Fixpoint run_ref (s : st) (ops : list op) : list obs :=
  match ops with
  | [] => []
  | o :: r => ref_obs s o :: run_ref (fst (step s o)) r
  end.

(* histories the property ranges over: optimiser steps happen in training mode *)
Fixpoint admissible (s : st) (ops : list op) : bool :=
  match ops with
  | [] => true
  | o :: r => (match o with Update => training s | _ => true end) && admissible (fst (step s o)) r
  end.
Definition no_backward (o : op) : bool :=
  match o with ForwardBackward | InverseBackward => false | _ => true end.
