(* Rational-quadratic spline (nflows/transforms/splines/rational_quadratic.py), one
   input with its own parameter vectors.  Scalar formulas, guards and constants are
   GENERATED (Gen/SplineRQ.v); knot construction, bin selection and routing are here. *)
From Coq Require Import ZArith List Bool.
From NF Require Import Base.Ops Base.Result Gen.Utils Gen.SplineRQ Model.Utils Model.Vec.
Import ListNotations.

Section RQ.
  Context {T : Type} (O : ops T).

  Record box := { b_left : T; b_right : T; b_bottom : T; b_top : T }.
  Record rq_cfg := { min_bin_width : T; min_bin_height : T; min_derivative : T; identity_init : bool }.
  Definition rq_default_cfg : rq_cfg :=
    {| min_bin_width := rq_DEFAULT_MIN_BIN_WIDTH O; min_bin_height := rq_DEFAULT_MIN_BIN_HEIGHT O;
       min_derivative := rq_DEFAULT_MIN_DERIVATIVE O; identity_init := false |}.

  (* cumulative knots: softmax -> affine -> cumsum -> pad 0 -> scale to the box -> pin both ends *)
  Definition knots (minb lo hi : T) (unnorm : list T) : list T :=
    let K := o_ofZ O (Z.of_nat (length unnorm)) in
    let w := map (fun v => rq_width_affine O minb K v) (softmax O unnorm) in
    let c := o_zero O :: cumsum O w in
    let c := map (fun v => rq_cumwidth_affine O lo hi v) c in
    set_last hi (set_first lo c).

  Definition rq_beta (c : rq_cfg) : T :=
    if identity_init c then rq_beta_identity_init O (min_derivative c) else rq_beta_default O.
  Definition derivatives (c : rq_cfg) (ud : list T) : list T :=
    map (fun u => rq_derivative O (min_derivative c) (rq_beta c) u) ud.

  Record rq_knots := { cumwidths : list T; widths : list T; cumheights : list T; heights : list T; derivs : list T }.
  Definition rq_build (c : rq_cfg) (bx : box) (uw uh ud : list T) : rq_knots :=
    let cw := knots (min_bin_width c) (b_left bx) (b_right bx) uw in
    let ch := knots (min_bin_height c) (b_bottom bx) (b_top bx) uh in
    {| cumwidths := cw; widths := diffs O cw; cumheights := ch; heights := diffs O ch; derivs := derivatives c ud |}.

  (* the eight gathered per-input quantities, in the order the generated formulas take them *)
  Definition rq_eval (f : T -> T -> T -> T -> T -> T -> T -> T -> T) (kn : rq_knots) (k : nat) (x : T) : T :=
    let w := nthT O k (widths kn) in let h := nthT O k (heights kn) in
    f x (nthT O k (cumwidths kn)) w (nthT O k (cumheights kn)) (rq_delta O h w)
      (nthT O k (derivs kn)) (nthT O (S k) (derivs kn)) h.

  Definition rq_bin (inverse : bool) (kn : rq_knots) (x : T) : nat :=
    Z.to_nat (searchsorted O (if inverse then cumheights kn else cumwidths kn) x).

  (* rational_quadratic_spline on one element: (output, logabsdet) *)
  Definition rq_spline (c : rq_cfg) (inverse : bool) (bx : box) (uw uh ud : list T) (x : T) : result (T * T) :=
    let (lo, hi) := rq_bounds inverse (b_left bx) (b_right bx) (b_bottom bx) (b_top bx) in
    if rq_rejects O x x lo hi then OutsideDomain
    else
      let K := o_ofZ O (Z.of_nat (length uw)) in
      if o_ltb O (o_one O) (o_mul O (min_bin_width c) K) then ValueErr
      else if o_ltb O (o_one O) (o_mul O (min_bin_height c) K) then ValueErr
      else
        let kn := rq_build c bx uw uh ud in
        let k := rq_bin inverse kn x in
        if Nat.leb (length uw) k then IndexErr    (* gather out of range *)
        else if inverse
             then Ok (rq_eval (rq_inv_ret0 O) kn k x, rq_eval (rq_inv_ret1 O) kn k x)
             else Ok (rq_eval (rq_fwd_ret0 O) kn k x, rq_eval (rq_fwd_ret1 O) kn k x).

  (* unconstrained_rational_quadratic_spline with linear tails *)
  Definition rq_unconstrained (c : rq_cfg) (inverse : bool) (tail_bound : T) (uw uh ud : list T) (x : T)
    : result (T * T) :=
    if rq_inside_tails O x tail_bound
    then let cst := rq_tail_constant O (min_derivative c) in
         let bx := {| b_left := o_neg O tail_bound; b_right := tail_bound;
                      b_bottom := o_neg O tail_bound; b_top := tail_bound |} in
         rq_spline c inverse bx uw uh (cst :: ud ++ [cst]) x
    else Ok (x, o_zero O).
End RQ.
