(* Vector helpers shared by the spline models (lists over [ops T]). *)
From Coq Require Import ZArith List Bool.
From NF Require Import Base.Ops.
Import ListNotations.

Section Vec.
  Context {T : Type} (O : ops T).

  Definition vsum (l : list T) : T := fold_right (o_add O) (o_zero O) l.
  (* F.softmax(l, dim=-1) *)
  Definition softmax (l : list T) : list T :=
    let e := map (o_exp O) l in let s := vsum e in map (fun x => o_div O x s) e.
  (* torch.cumsum: running sums, left to right *)
  Fixpoint cumsum_from (acc : T) (l : list T) : list T :=
    match l with
    | [] => []
    | x :: r => let a := o_add O acc x in a :: cumsum_from a r
    end.
  Definition cumsum (l : list T) : list T :=
    match l with [] => [] | x :: r => x :: cumsum_from x r end.
  (* v[..., -1] = a *)
  Fixpoint set_last (a : T) (l : list T) : list T :=
    match l with
    | [] => []
    | [_] => [a]
    | x :: r => x :: set_last a r
    end.
  (* v[..., 0] = a *)
  Definition set_first (a : T) (l : list T) : list T :=
    match l with [] => [] | _ :: r => a :: r end.
  (* v[..., 1:] - v[..., :-1] *)
  Fixpoint diffs (l : list T) : list T :=
    match l with
    | x :: ((y :: _) as r) => o_sub O y x :: diffs r
    | _ => []
    end.
  Definition map2 (f : T -> T -> T) (a b : list T) : list T :=
    map (fun p => f (fst p) (snd p)) (combine a b).
  Definition nthT (k : nat) (l : list T) : T := nth k l (o_zero O).
End Vec.
