(* Row-batch helpers for the sampling paths (a batch = list of rows, a row = list of scalars). *)
From Coq Require Import List Arith.
From NF Require Import Model.Utils Model.FlowSample.
Import ListNotations.

Section RowLayout.
  Context {A B C : Type}.
  (* torchutils.repeat_rows(v, n): every row n times, consecutively *)
  Definition rep_rows (n : nat) (l : list A) : list A := flat_map (fun c => repeat c n) l.
  Definition rows_map (f : A -> B) (l : list (list A)) : list (list B) := map (map f) l.
  Definition rows_zip (f : A -> B -> C) (a : list (list A)) (b : list (list B)) : list (list C) :=
    zip_with (zip_with f) a b.
End RowLayout.
