(* Shape and argument contract of Distribution / Flow (nflows/distributions/base.py,
   nflows/flows/base.py).  Tensors are represented by their shapes only. *)
From Coq Require Import ZArith List Bool Arith Lia.
From NF Require Import Base.Result Base.PyVal Gen.Typechecks Gen.DistBase Model.Utils.
Import ListNotations.

Definition list_eqb (a b : list nat) : bool :=
  Nat.eqb (length a) (length b) && forallb (fun p => Nat.eqb (fst p) (snd p)) (combine a b).

(* _sample of the normal family (StandardNormal, ConditionalDiagonalNormal, Bernoulli):
   [n; event] without context, [rows; n; event] with a context of `rows` rows *)
Definition base_sample_shape (ev : list nat) (n : nat) (ctx : option (list nat)) : result (list nat) :=
  match ctx with
  | None => Ok (n :: ev)
  | Some [] => IndexErr
  | Some (k :: _) => Ok (k :: n :: ev)
  end.

(* torch.cat(shapes, dim): all shapes agree except at [dim]; sizes at [dim] add up *)
Fixpoint set_nth (l : list nat) (i v : nat) : list nat :=
  match l, i with
  | [], _ => []
  | _ :: r, O => v :: r
  | a :: r, S j => a :: set_nth r j v
  end.
Definition cat_shapes (dim : nat) (shs : list (list nat)) : result (list nat) :=
  match shs with
  | [] => RuntimeErr
  | s0 :: rest =>
    if Nat.leb (length s0) dim then IndexErr
    else if forallb (fun s => list_eqb (set_nth s dim 0) (set_nth s0 dim 0)) rest
         then Ok (set_nth s0 dim (fold_right (fun s acc => nth dim s 0 + acc) 0 shs))
         else RuntimeErr
  end.

Fixpoint collect {A} (l : list (result A)) : result (list A) :=
  match l with
  | [] => Ok []
  | r :: rest => rbind r (fun a => rbind (collect rest) (fun l' => Ok (a :: l')))
  end.

Definition is_some {A} (o : option A) : bool := match o with Some _ => true | None => false end.

(* Distribution.sample(num_samples, context, batch_size).  Python's bool is an int, so
   sample(True) passes the library's check and behaves as sample(1) (whether torch then
   accepts a bool size depends on the distribution; bool counts are outside this model's
   comparison with the code) *)
Definition sample_shape (ev : list nat) (num_samples : pyval) (ctx : option (list nat))
           (batch_size : option pyval) : result (list nat) :=
  if dist_sample_checks_count && negb (tc_is_positive_int num_samples) then TypeErr
  else
    let n := Z.to_nat (py_int num_samples) in
    match batch_size with
    | None => base_sample_shape ev n ctx
    | Some b =>
      if negb (tc_is_positive_int b) then TypeErr
      else
        let bs := Z.to_nat (py_int b) in
        let nb := dist_num_batches n bs in
        let nl := dist_num_leftover n bs in
        let parts := repeat (base_sample_shape ev bs ctx) nb
                     ++ (if Nat.ltb 0 nl then [base_sample_shape ev nl ctx] else []) in
        rbind (collect parts) (cat_shapes (dist_cat_dim (is_some ctx)))
    end.

(* Distribution.log_prob for a distribution with event shape ev *)
Definition log_prob_shape (ev inp : list nat) (ctx : option (list nat)) : result (list nat) :=
  match inp with
  | [] => IndexErr
  | b :: rest =>
    let body := if list_eqb rest ev then Ok [b] else ValueErr in
    match ctx with
    | None => body
    | Some [] => IndexErr
    | Some (k :: _) => if dist_logprob_checks_rows && negb (Nat.eqb b k) then ValueErr else body
    end
  end.

Definition shape_of (r : result (tensor unit)) : result (list nat) := rmap (fun t => shape t) r.
Definition sh (s : list nat) : tensor unit := mkT s [].

(* Distribution.sample_and_log_prob: shapes of (samples, log_prob) *)
Definition sample_and_log_prob_shape (ev : list nat) (num_samples : pyval) (ctx : option (list nat))
  : result (list nat * list nat) :=
  rbind (sample_shape ev num_samples ctx None) (fun s =>
  match ctx with
  | None => rbind (log_prob_shape ev s None) (fun lp => Ok (s, lp))
  | Some c =>
    rbind (shape_of (merge_leading_dims (sh s) (PInt 2))) (fun s2 =>
    rbind (shape_of (repeat_rows (sh c) num_samples)) (fun c2 =>
    rbind (log_prob_shape ev s2 (Some c2)) (fun lp =>
    let n := py_int num_samples in
    rbind (shape_of (split_leading_dim (sh s2) [-1; n]%Z)) (fun s3 =>
    rbind (shape_of (split_leading_dim (sh lp) [-1; n]%Z)) (fun lp3 => Ok (s3, lp3))))))
  end).

(* Flow._sample: base noise, merge the two leading dims, invert (shape preserving), split *)
Definition flow_sample_shape (ev : list nat) (n : nat) (ctx : option (list nat)) : result (list nat) :=
  rbind (base_sample_shape ev n ctx) (fun noise =>
  match ctx with
  | None => Ok noise
  | Some _ =>
    rbind (shape_of (merge_leading_dims (sh noise) (PInt 2))) (fun m =>
    shape_of (split_leading_dim (sh m) [-1; Z.of_nat n]%Z))
  end).
