(* Piecewise-quadratic spline (nflows/transforms/splines/quadratic.py), one input. *)
From Coq Require Import ZArith List Bool.
From NF Require Import Base.Ops Base.Result Gen.Utils Gen.SplineQuadratic Model.Utils Model.Vec Model.SplineRQ.
Import ListNotations.

Section Quadratic.
  Context {T : Type} (O : ops T).

  Definition q_widths (minw : T) (uw : list T) : list T :=
    let K := o_ofZ O (Z.of_nat (length uw)) in map (fun v => quad_width_affine O minw K v) (softmax O uw).

  (* sum over bins of ((h_k + h_{k+1}) / 2) * w_k *)
  Fixpoint trapezoids (hs ws : list T) : list T :=
    match hs, ws with
    | hl :: ((hr :: _) as hs'), w :: ws' => quad_trapezoid O hl hr w :: trapezoids hs' ws'
    | _, _ => []
    end.
  Definition inner (l : list T) : list T := removelast (tl l).     (* l[1:-1] *)

  (* unnormalised heights incl. the boundary constant when only K-1 are given *)
  Definition q_unnorm_heights (ws uh : list T) : list T :=
    let e := map (quad_unnorm_height O) uh in
    if Nat.eqb (length e) (length ws - 1)
    then let c := quad_boundary_constant O (nthT O 0 ws) (last ws (o_zero O)) (nthT O 0 e) (last e (o_zero O))
                                         (Vec.vsum O (trapezoids e (inner ws))) in
         c :: e ++ [c]
    else e.

  Definition q_heights (minh : T) (ws uh : list T) : list T :=
    let e := q_unnorm_heights ws uh in
    let area := Vec.vsum O (trapezoids e ws) in
    map (fun v => quad_height_affine O minh (o_div O v area)) e.

  Definition q_left_cdf (hs ws : list T) : list T :=
    o_zero O :: set_last (o_ofZ O 1) (cumsum O (trapezoids hs ws)).
  Definition q_locations (ws : list T) : list T := o_zero O :: set_last (o_ofZ O 1) (cumsum O ws).

  Definition quadratic_spline (minw minh : T) (inverse : bool) (bx : box) (uw uh : list T) (x0 : T) : result (T * T) :=
    let K := length uw in
    let (lo, hi) := quad_bounds inverse (b_left bx) (b_right bx) (b_bottom bx) (b_top bx) in
    if quad_rejects O x0 x0 lo hi then OutsideDomain
    else
      let l := b_left bx in let r := b_right bx in let b := b_bottom bx in let t := b_top bx in
      let x := if inverse then quad_inv_normalise_inputs O x0 l r b t else quad_fwd_normalise_inputs O x0 l r b t in
      let Kt := o_ofZ O (Z.of_nat K) in
      if o_ltb O (o_one O) (o_mul O minw Kt) then ValueErr
      else if o_ltb O (o_one O) (o_mul O minh Kt) then ValueErr
      else
        let ws := q_widths minw uw in
        let hs := q_heights minh ws uh in
        let cdf := q_left_cdf hs ws in
        let locs := q_locations ws in
        let k := Z.to_nat (searchsorted O (if inverse then cdf else locs) x) in
        if Nat.leb K k then IndexErr
        else
          let il := nthT O k locs in let iw := nthT O k ws in let ic := nthT O k cdf in
          let hl := nthT O k hs in let hr := nthT O (S k) hs in
          let a := quad_coef_a O x il iw ic hl hr in
          let bq := quad_coef_b O x il iw ic hl hr in
          let c := quad_coef_c O x il iw ic hl hr in
          if inverse then
            let y := quad_inv_outputs O x il iw ic hl hr a bq c in
            let ld := quad_inv_logabsdet O x il iw ic hl hr a bq c in
            Ok (quad_inv_denormalise_outputs O y ld l r b t, quad_inv_denormalise_logabsdet O y ld l r b t)
          else
            let y := quad_fwd_outputs O x il iw ic hl hr a bq c in
            let ld := quad_fwd_logabsdet O x il iw ic hl hr a bq c in
            Ok (quad_fwd_denormalise_outputs O y ld l r b t, quad_fwd_denormalise_logabsdet O y ld l r b t).

  Definition quadratic_unconstrained (minw minh : T) (inverse : bool) (tail_bound : T) (uw uh : list T) (x : T)
    : result (T * T) :=
    if quad_inside_tails O x tail_bound
    then quadratic_spline minw minh inverse {| b_left := o_neg O tail_bound; b_right := tail_bound;
                                               b_bottom := o_neg O tail_bound; b_top := tail_bound |} uw uh x
    else Ok (x, o_zero O).
End Quadratic.
