(* Model of MADE (nflows/transforms/made.py and nflows/nn/nde/made.py).
   No real numbers: the carrier of activations is an arbitrary type with an
   addition, a multiplication and a zero; weights, biases, activations, batch
   norm, dropout masks and the context contribution are arbitrary. *)
From Coq Require Import List Bool Arith Lia.
From NF Require Import Gen.MadeT Gen.MadeN Model.Utils.
Import ListNotations.

(* the pieces generated from one copy of the source *)
Record made_gen := {
  g_input_degree : nat -> nat -> nat;       (* feature count, index -> degree *)
  g_input_count : nat -> nat;
  g_hidden_cmp : nat -> nat -> bool;        (* out degree, in degree *)
  g_output_cmp : nat -> nat -> bool;
  g_output_reps : nat -> nat -> nat;        (* out_features, features -> copies *)
  g_seq_degree : nat -> nat -> nat -> nat;  (* features, out_features, unit *)
  g_random_low : nat -> nat -> nat;
  g_random_high : nat -> nat
}.
Definition genT : made_gen := {|
  g_input_degree := madeT_input_degree; g_input_count := madeT_input_count;
  g_hidden_cmp := madeT_hidden_cmp; g_output_cmp := madeT_output_cmp;
  g_output_reps := madeT_output_reps; g_seq_degree := madeT_seq_degree;
  g_random_low := madeT_random_low; g_random_high := madeT_random_high |}.
Definition genN : made_gen := {|
  g_input_degree := madeN_input_degree; g_input_count := madeN_input_count;
  g_hidden_cmp := madeN_hidden_cmp; g_output_cmp := madeN_output_cmp;
  g_output_reps := madeN_output_reps; g_seq_degree := madeN_seq_degree;
  g_random_low := madeN_random_low; g_random_high := madeN_random_high |}.

(* ---------- executable constructor-side model: degrees and masks as lists ---------- *)
Section Build.
  Variable G : made_gen.

  Definition input_degrees (features : nat) : list nat :=
    map (g_input_degree G features) (seq 0 (g_input_count G features)).
  Definition hidden_degrees_seq (features out_features : nat) : list nat :=
    map (g_seq_degree G features out_features) (seq 0 out_features).
  (* tile(_get_input_degrees(features), out_features // features) *)
  Definition output_degrees (features out_features : nat) : list nat :=
    tile_data 0 (input_degrees features) (g_output_reps G out_features features).
  Definition mask_matrix (cmp : nat -> nat -> bool) (out_degs in_degs : list nat) : list (list bool) :=
    map (fun dout => map (fun din => cmp dout din) in_degs) out_degs.
  Definition hidden_mask := mask_matrix (g_hidden_cmp G).
  Definition output_mask := mask_matrix (g_output_cmp G).
  (* the residual block's constructor check: torch.all(degrees >= in_degrees) *)
  Definition res_degrees_ok (out_degs in_degs : list nat) : bool :=
    forallb (fun p => Nat.leb (snd p) (fst p)) (combine out_degs in_degs).
  (* admissible draws of torch.randint(low, high) for the random hidden degrees *)
  Definition random_degrees_ok (features : nat) (in_degs degs : list nat) : bool :=
    let lo := g_random_low G features (fold_right Nat.min (hd 0 in_degs) in_degs) in
    forallb (fun d => Nat.leb lo d && Nat.ltb d (g_random_high G features)) degs.
End Build.

(* ---------- how the constructors pass degrees along: the table of a CHAIN ----------
   (class, target, callee or "=", expression given as in_degrees / assigned).  A feed-forward block builds its layer against the
   block's in_degrees and exports that layer's degrees; a residual block builds its first layer against in_degrees, its second
   against the first's degrees and exports the second's; MADE builds the initial layer against the input degrees, every block
   against the running prev_out_degrees, which it then moves to the block just built, and the final layer against the last value.
   This is exactly the data flow of [eval_layers] / [degs_after] below, where each layer is evaluated against the degrees left by
   the layer before it.  Gen/MadeT.v and Gen/MadeN.v regenerate the table from the two source files. *)
From Coq Require Import String.
Definition chain_wiring : list (string * string * string * string) :=
  [("MaskedFeedforwardBlock", "self.linear", "MaskedLinear", "in_degrees");
   ("MaskedFeedforwardBlock", "self.degrees", "=", "self.linear.degrees");
   ("MaskedResidualBlock", "linear_0", "MaskedLinear", "in_degrees");
   ("MaskedResidualBlock", "linear_1", "MaskedLinear", "linear_0.degrees");
   ("MaskedResidualBlock", "self.degrees", "=", "linear_1.degrees");
   ("MADE", "self.initial_layer", "MaskedLinear", "_get_input_degrees(features)");
   ("MADE", "prev_out_degrees", "=", "self.initial_layer.degrees");
   ("MADE", "blocks.append", "block_constructor", "prev_out_degrees");
   ("MADE", "prev_out_degrees", "=", "blocks[-1].degrees");
   ("MADE", "self.final_layer", "MaskedLinear", "prev_out_degrees")]%string.

(* ---------- semantic model: evaluation with arbitrary weights ---------- *)
Section Sem.
  Variable T : Type.
  Variables (tadd tmul : T -> T -> T) (tzero tone : T).
  Variable hcmp ocmp : nat -> nat -> bool.     (* hidden / output mask comparisons *)

  Definition vec := nat -> T.
  Definition ofb (b : bool) : T := if b then tone else tzero.
  Fixpoint dot (n : nat) (f : nat -> T) : T :=
    match n with O => tzero | S k => tadd (dot k f) (f k) end.

  Record masked := {
    m_nin : nat;                 (* number of input units *)
    m_deg : nat -> nat;          (* degree of each output unit *)
    m_w : nat -> nat -> T;       (* weight[out][in], arbitrary *)
    m_b : nat -> T               (* bias, arbitrary *)
  }.

  (* F.linear(x, weight * mask, bias) with mask[u][v] = cmp (deg u) (deg_in v) *)
  Definition eval_masked (cmp : nat -> nat -> bool) (m : masked) (deg_in : nat -> nat) (x : vec) : vec :=
    fun u => tadd (dot (m_nin m) (fun v => tmul (tmul (m_w m u v) (ofb (cmp (m_deg m u) (deg_in v)))) (x v)))
                  (m_b m u).

  Inductive layer :=
  | LMasked (m : masked)                       (* a hidden masked linear layer *)
  | LPointwise (f : nat -> T -> T)             (* activation, batch norm, dropout: per unit *)
  | LAddConst (c : nat -> T)                   (* + context_layer(context) *)
  | LRes (pre : nat -> T -> T) (m0 : masked) (c : nat -> T) (mid : nat -> T -> T) (m1 : masked).

  Definition pointwise (f : nat -> T -> T) (x : vec) : vec := fun u => f u (x u).

  Definition layer_deg (l : layer) (deg : nat -> nat) : nat -> nat :=
    match l with
    | LMasked m => m_deg m
    | LPointwise _ | LAddConst _ => deg
    | LRes _ _ _ _ m1 => m_deg m1
    end.

  Definition layer_fn (l : layer) (deg : nat -> nat) (x : vec) : vec :=
    match l with
    | LMasked m => eval_masked hcmp m deg x
    | LPointwise f => pointwise f x
    | LAddConst c => fun u => tadd (x u) (c u)
    | LRes pre m0 c mid m1 =>
      let h0 := eval_masked hcmp m0 deg (pointwise pre x) in
      let h0c := fun u => tadd (h0 u) (c u) in
      let h1 := eval_masked hcmp m1 (m_deg m0) (pointwise mid h0c) in
      fun u => tadd (x u) (h1 u)
    end.

  Fixpoint eval_layers (ls : list layer) (deg : nat -> nat) (x : vec) : vec :=
    match ls with
    | [] => x
    | l :: r => eval_layers r (layer_deg l deg) (layer_fn l deg x)
    end.
  Fixpoint degs_after (ls : list layer) (deg : nat -> nat) : nat -> nat :=
    match ls with
    | [] => deg
    | l :: r => degs_after r (layer_deg l deg)
    end.

  (* the constructor's check for residual blocks, for the units that exist *)
  Fixpoint layers_ok (deg : nat -> nat) (ls : list layer) : Prop :=
    match ls with
    | [] => True
    | l :: r =>
      match l with
      | LRes _ _ _ _ m1 => forall u, deg u <= m_deg m1 u
      | _ => True
      end /\ layers_ok (layer_deg l deg) r
    end.

  Record made := {
    n_features : nat;
    in_deg : nat -> nat;          (* degrees of the inputs *)
    body : list layer;            (* initial layer, context, blocks *)
    final : masked                (* the output layer, strict mask *)
  }.

  Definition eval_made (net : made) (x : vec) : vec :=
    eval_masked ocmp (final net) (degs_after (body net) (in_deg net))
                (eval_layers (body net) (in_deg net) x).
End Sem.
