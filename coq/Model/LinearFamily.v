(* Executable model of the linear family (lu.py, qr.py, svd.py, orthogonal.py): matrices are lists of rows. *)
From Coq Require Import ZArith List Bool Arith.
From NF Require Import Base.Ops Model.Vec.
Import ListNotations.

Section Lin.
  Context {T : Type} (O : ops T).
  Definition mat := list (list T).
  Definition z := o_zero O.
  Definition dotv (a b : list T) : T := Vec.vsum O (map2 (o_mul O) a b).
  Definition matvec (m : mat) (x : list T) : list T := map (fun r => dotv r x) m.
  Definition col (m : mat) (j : nat) : list T := map (fun r => nth j r z) m.
  Definition transpose (n : nat) (m : mat) : mat := map (col m) (seq 0 n).
  Definition matmul (n : nat) (a b : mat) : mat := map (fun r => map (fun j => dotv r (col b j)) (seq 0 n)) a.
  Definition identity (n : nat) : mat := map (fun i => map (fun j => if Nat.eqb i j then o_one O else z) (seq 0 n)) (seq 0 n).

  (* position of (i, j), j < i, in np.tril_indices(n, k=-1) (row-major): i(i-1)/2 + j *)
  Definition tril_pos (i j : nat) : nat := i * (i - 1) / 2 + j.
  (* position of (i, j), i < j, in np.triu_indices(n, k=1) (row-major): rows 0..i-1 contribute (n-1) + ... + (n-i) *)
  Definition triu_pos (n i j : nat) : nat := i * (2 * n - i - 1) / 2 + (j - i - 1).

  Definition lower_unit (n : nat) (entries : list T) : mat :=
    map (fun i => map (fun j => if Nat.ltb j i then nth (tril_pos i j) entries z
                                else if Nat.eqb i j then o_one O else z) (seq 0 n)) (seq 0 n).
  Definition upper_with_diag (n : nat) (entries diag : list T) : mat :=
    map (fun i => map (fun j => if Nat.ltb i j then nth (triu_pos n i j) entries z
                                else if Nat.eqb i j then nth i diag z else z) (seq 0 n)) (seq 0 n).

  (* LULinear *)
  Definition lu_diag (eps : T) (ud : list T) : list T := map (fun u => o_add O (o_softplus O u) eps) ud.
  Definition lu_weight (n : nat) (eps : T) (le ue ud : list T) : mat :=
    matmul n (lower_unit n le) (upper_with_diag n ue (lu_diag eps ud)).
  Definition lu_logabsdet (eps : T) (ud : list T) : T := Vec.vsum O (map (o_ln O) (lu_diag eps ud)).
  Definition lu_forward (n : nat) (eps : T) (le ue ud bias x : list T) : list T :=
    map2 (o_add O) (matvec (lower_unit n le) (matvec (upper_with_diag n ue (lu_diag eps ud)) x)) bias.

  (* forward / back substitution: solve_triangular *)
  Fixpoint fwd_subst (unit : bool) (rows : mat) (b : list T) (acc : list T) : list T :=
    match rows, b with
    | r :: rows', bi :: b' =>
      let i := length acc in
      let s := o_sub O bi (dotv (firstn i r) acc) in
      let xi := if unit then s else o_div O s (nth i r z) in
      fwd_subst unit rows' b' (acc ++ [xi])
    | _, _ => acc
    end.
  Definition solve_lower (unit : bool) (m : mat) (b : list T) : list T := fwd_subst unit m b [].
  (* upper triangular: reverse rows and columns, solve lower, reverse back *)
  Definition solve_upper (m : mat) (b : list T) : list T :=
    rev (solve_lower false (map (@rev T) (rev m)) (rev b)).
  Definition lu_inverse (n : nat) (eps : T) (le ue ud bias y : list T) : list T :=
    solve_upper (upper_with_diag n ue (lu_diag eps ud)) (solve_lower true (lower_unit n le) (map2 (o_sub O) y bias)).
  Definition lu_weight_inverse (n : nat) (eps : T) (le ue ud : list T) : mat :=
    transpose n (map (fun e => solve_upper (upper_with_diag n ue (lu_diag eps ud)) (solve_lower true (lower_unit n le) e))
                     (identity n)).

  (* HouseholderSequence._apply_transforms on one row *)
  Definition hh_apply1 (q x : list T) : list T :=
    let sq := dotv q q in
    let t := dotv x q in
    map2 (fun xi qi => o_sub O xi (o_mul O t (o_mul O (o_div O (o_ofZ O 2) sq) qi))) x q.
  Definition hh_apply (qs : mat) (x : list T) : list T := fold_left (fun acc q => hh_apply1 q acc) qs x.
  Definition hh_inverse (qs : mat) (x : list T) : list T := hh_apply (rev qs) x.
  Definition hh_matrix (n : nat) (qs : mat) : mat := map (hh_inverse qs) (identity n).

  (* QRLinear *)
  Definition qr_upper (n : nat) (ue lud : list T) : mat := upper_with_diag n ue (map (o_exp O) lud).
  Definition qr_forward (n : nat) (qs : mat) (ue lud bias x : list T) : list T :=
    map2 (o_add O) (hh_apply qs (matvec (qr_upper n ue lud) x)) bias.
  Definition qr_inverse (n : nat) (qs : mat) (ue lud bias y : list T) : list T :=
    solve_upper (qr_upper n ue lud) (hh_inverse qs (map2 (o_sub O) y bias)).
  Definition qr_weight (n : nat) (qs : mat) (ue lud : list T) : mat :=
    transpose n (map (hh_apply qs) (transpose n (qr_upper n ue lud))).
  Definition qr_logabsdet (lud : list T) : T := Vec.vsum O lud.

  (* SVDLinear *)
  Definition svd_diag (eps : T) (ud : list T) : list T := map (fun u => o_add O eps (o_softplus O u)) ud.
  Definition svd_forward (q1 q2 : mat) (eps : T) (ud bias x : list T) : list T :=
    map2 (o_add O) (hh_apply q1 (map2 (o_mul O) (hh_apply q2 x) (svd_diag eps ud))) bias.
  Definition svd_inverse (q1 q2 : mat) (eps : T) (ud bias y : list T) : list T :=
    hh_inverse q2 (map2 (o_div O) (hh_inverse q1 (map2 (o_sub O) y bias)) (svd_diag eps ud)).
  Definition svd_logabsdet (eps : T) (ud : list T) : T := Vec.vsum O (map (o_ln O) (svd_diag eps ud)).
End Lin.
