(* Monotone cubic (Steffen) spline (nflows/transforms/splines/cubic.py), one input. *)
From Coq Require Import ZArith List Bool.
From NF Require Import Base.Ops Base.Result Gen.Utils Gen.SplineCubic Model.Utils Model.Vec Model.SplineRQ.
Import ListNotations.

Section Cubic.
  Context {T : Type} (O : ops T).

  Definition c_widths (minw : T) (uw : list T) : list T :=
    let K := o_ofZ O (Z.of_nat (length uw)) in map (fun v => cub_width_affine O minw K v) (softmax O uw).
  Definition c_heights (minh : T) (uh : list T) : list T :=
    let K := o_ofZ O (Z.of_nat (length uh)) in map (fun v => cub_height_affine O minh K v) (softmax O uh).
  Definition c_cum (l : list T) : list T := o_zero O :: set_last (o_ofZ O 1) (cumsum O l).

  (* interior derivatives from neighbouring slopes / widths *)
  Fixpoint inner_derivs (ss ws : list T) : list T :=
    match ss, ws with
    | sl :: ((sr :: _) as ss'), wl :: ((wr :: _) as ws') =>
      let m1 := cub_min_something_1 O sl sr wl wr in
      let m2 := cub_min_something_2 O sl sr wl wr in
      cub_inner_derivative O (cub_min_something O m1 m2) sl sr wl wr :: inner_derivs ss' ws'
    | _, _ => []
    end.

  Definition c_derivs (ss ws : list T) (ul ur : T) : list T :=
    cub_derivative_left O ul (nthT O 0 ss) :: inner_derivs ss ws ++ [cub_derivative_right O ur (last ss (o_zero O))].

  (* root selection of the three-root case: argsort(masks, descending)[0] = first root inside the
     (eps-widened) bin, the first root if none is *)
  Definition in_bin (lw rw eps r : T) : bool := o_ltb O (o_sub O lw eps) r && o_ltb O r (o_add O rw eps).

  Definition cubic_spline (minw minh eps thr : T) (inverse : bool) (bx : box) (uw uh : list T) (ul ur : T) (x0 : T)
    : result (T * T) :=
    let K := length uw in
    let (lo, hi) := cub_bounds inverse (b_left bx) (b_right bx) (b_bottom bx) (b_top bx) in
    if cub_rejects O x0 x0 lo hi then OutsideDomain
    else
      let Kt := o_ofZ O (Z.of_nat K) in
      if o_ltb O (o_one O) (o_mul O minw Kt) then ValueErr
      else if o_ltb O (o_one O) (o_mul O minh Kt) then ValueErr
      else
        let l := b_left bx in let r := b_right bx in let b := b_bottom bx in let t := b_top bx in
        let x := if inverse then cub_inv_normalise_inputs O x0 l r b t else cub_fwd_normalise_inputs O x0 l r b t in
        let ws := c_widths minw uw in let hs := c_heights minh uh in
        let cw := c_cum ws in let ch := c_cum hs in
        let ss := map2 (cub_slope O) hs ws in
        let ds := c_derivs ss ws ul ur in
        let k := Z.to_nat (searchsorted O (if inverse then ch else cw) x) in
        if Nat.leb K k then IndexErr
        else
          let sk := nthT O k ss in let wk := nthT O k ws in
          let dl := nthT O k ds in let dr := nthT O (S k) ds in
          let a := cub_coef_a O sk wk dl dr in
          let bq := cub_coef_b O sk wk dl dr in
          let c := dl in let dd := nthT O k ch in
          let lw := nthT O k cw in let rw := nthT O (S k) cw in
          if inverse then
            let z := o_zero O in
            let disc := cub_inv_discriminant O x a bq c dd lw rw z eps thr in
            let y :=
                if o_ltb O (o_abs O a) thr then cub_inv_outputs_at_quadratic_mask O x a bq c dd lw rw z eps thr
                else if o_ltb O disc (o_zero O) then cub_inv_outputs_at_one_root_mask O x a bq c dd lw rw z eps thr
                else if o_leb O (o_zero O) disc then
                       let r1 := cub_inv_root_1 O x a bq c dd lw rw z eps thr in
                       let r2 := cub_inv_root_2 O x a bq c dd lw rw z eps thr in
                       let r3 := cub_inv_root_3 O x a bq c dd lw rw z eps thr in
                       if in_bin lw rw eps r1 then r1 else if in_bin lw rw eps r2 then r2
                       else if in_bin lw rw eps r3 then r3 else r1
                else z (* NaN discriminant: neither mask selects the element, outputs stay 0 *) in
            let ld := cub_inv_logabsdet O x a bq c dd lw rw y eps thr in
            Ok (cub_inv_denormalise_outputs O y ld l r b t, cub_inv_denormalise_logabsdet O y ld l r b t)
          else
            let y := cub_fwd_outputs O x a bq c dd lw rw in
            let ld := cub_fwd_logabsdet O x a bq c dd lw rw in
            Ok (cub_fwd_denormalise_outputs O y ld l r b t, cub_fwd_denormalise_logabsdet O y ld l r b t).

  Definition cubic_unconstrained (minw minh eps thr : T) (inverse : bool) (tail_bound : T) (uw uh : list T) (ul ur x : T)
    : result (T * T) :=
    if cub_inside_tails O x tail_bound
    then cubic_spline minw minh eps thr inverse {| b_left := o_neg O tail_bound; b_right := tail_bound;
                                                   b_bottom := o_neg O tail_bound; b_top := tail_bound |} uw uh ul ur x
    else Ok (x, o_zero O).
End Cubic.
