(* Piecewise-linear spline (nflows/transforms/splines/linear.py), one input. *)
From Coq Require Import ZArith List Bool.
From NF Require Import Base.Ops Base.Result Gen.Utils Gen.SplineLinear Model.Utils Model.Vec Model.SplineRQ.
Import ListNotations.

Section Linear.
  Context {T : Type} (O : ops T).

  (* pdf = softmax; cdf = [0; cumsum with the last entry pinned to 1] *)
  Definition lin_pdf (u : list T) : list T := softmax O u.
  Definition lin_cdf (u : list T) : list T := o_zero O :: set_last (o_ofZ O 1) (cumsum O (lin_pdf u)).
  (* torch.linspace(0, 1, K+1)[i] *)
  Definition lin_boundary (K i : nat) : T := o_div O (o_ofZ O (Z.of_nat i)) (o_ofZ O (Z.of_nat K)).

  Definition linear_spline (inverse : bool) (bx : box) (u : list T) (x0 : T) : result (T * T) :=
    let K := length u in
    let (lo, hi) := lin_bounds inverse (b_left bx) (b_right bx) (b_bottom bx) (b_top bx) in
    if lin_rejects O x0 x0 lo hi then OutsideDomain
    else
      let l := b_left bx in let r := b_right bx in let b := b_bottom bx in let t := b_top bx in
      let Kt := o_ofZ O (Z.of_nat K) in
      if inverse then
        let x := lin_inv_normalise_inputs O x0 l r b t in
        let cdf := lin_cdf u in
        let k := Z.to_nat (searchsorted O cdf x) in
        if Nat.leb K k then IndexErr
        else
          let cl := nthT O k cdf in let cr := nthT O (S k) cdf in
          let bl := lin_boundary K k in let br := lin_boundary K (S k) in
          let y := lin_inv_outputs O x cl cr bl br in
          let ld := lin_inv_logabsdet O x cl cr bl br in
          Ok (lin_inv_denormalise_outputs O y ld l r b t, lin_inv_denormalise_logabsdet O y ld l r b t)
      else
        let x := lin_fwd_normalise_inputs O x0 l r b t in
        let pos := lin_fwd_bin_pos O x Kt Kt Kt Kt in
        (* bin_idx = floor(bin_pos); bin_idx[bin_idx >= K] = K - 1 *)
        let kz := o_floor O pos in
        let k := if Z.leb (Z.of_nat K) kz then K - 1 else Z.to_nat kz in
        let kt := o_ofZ O (Z.of_nat k) in
        let p := nthT O k (lin_pdf u) in let c := nthT O k (lin_cdf u) in
        let y := lin_fwd_outputs O x Kt kt p c in
        let ld := lin_fwd_logabsdet O x Kt kt p c in
        Ok (lin_fwd_denormalise_outputs O y ld l r b t, lin_fwd_denormalise_logabsdet O y ld l r b t).

  Definition linear_unconstrained (inverse : bool) (tail_bound : T) (u : list T) (x : T) : result (T * T) :=
    if lin_inside_tails O x tail_bound
    then linear_spline inverse {| b_left := o_neg O tail_bound; b_right := tail_bound;
                                  b_bottom := o_neg O tail_bound; b_top := tail_bound |} u x
    else Ok (x, o_zero O).
End Linear.
