(* ActNorm and BatchNorm (nflows/transforms/normalization.py), one feature / channel:
   a batch is the list of that feature's values over the batch (for images: over
   batch, height and width).  All formulas are GENERATED (Gen/Norm.v). *)
From Coq Require Import ZArith List Bool.
From NF Require Import Base.Ops Base.Result Gen.Norm.
Import ListNotations.

Inductive nop (T : Type) := NTrain | NEval | NForward (b : list T) | NInverse (b : list T) | NReload.
Arguments NTrain {T}. Arguments NEval {T}. Arguments NForward {T}. Arguments NInverse {T}. Arguments NReload {T}.

Section Norm.
  Context {T : Type} (O : ops T).

  Definition rsum (l : list T) : T := fold_right (o_add O) (o_zero O) l.
  Definition ofnat (n : nat) : T := o_ofZ O (Z.of_nat n).
  Definition vmean (l : list T) : T := o_div O (rsum l) (ofnat (length l)).
  (* torch.var / torch.std default: unbiased *)
  Definition vvar (l : list T) : T :=
    let m := vmean l in
    o_div O (rsum (map (fun x => o_sq O (o_sub O x m)) l)) (ofnat (length l - 1)).
  Definition vstd (l : list T) : T := o_sqrt O (vvar l).

  (* ---------------- ActNorm ---------------- *)
  Record an_state := { an_init : bool; an_log_scale : T; an_shift : T; an_training : bool }.
  Definition an_fresh : an_state :=
    {| an_init := false; an_log_scale := o_zero O; an_shift := o_zero O; an_training := true |}.

  (* outputs of the call and this feature's log-det contribution per element *)
  Definition an_step (s : an_state) (o : nop T) : an_state * result (list T * T) :=
    match o with
    | NTrain => ({| an_init := an_init s; an_log_scale := an_log_scale s; an_shift := an_shift s; an_training := true |}, Ok ([], o_zero O))
    | NEval => ({| an_init := an_init s; an_log_scale := an_log_scale s; an_shift := an_shift s; an_training := false |}, Ok ([], o_zero O))
    | NReload => (* state_dict -> freshly constructed instance (training mode) -> load_state_dict *)
      ({| an_init := an_init s; an_log_scale := an_log_scale s; an_shift := an_shift s; an_training := true |}, Ok ([], o_zero O))
    | NForward b =>
      let s1 :=
          if an_initialises (an_training s) (an_init s)
          then let std := vstd b in
               let mu := vmean (map (fun x => o_div O x std) b) in
               {| an_init := true; an_log_scale := an_init_log_scale O std mu; an_shift := an_init_shift O std mu;
                  an_training := an_training s |}
          else s in
      (s1, Ok (map (an_forward_out O (an_scale O (an_log_scale s1)) (an_shift s1)) b, an_log_scale s1))
    | NInverse b =>
      (s, Ok (map (an_inverse_out O (an_scale O (an_log_scale s)) (an_shift s)) b, o_neg O (an_log_scale s)))
    end.

  (* ---------------- BatchNorm ---------------- *)
  Record bn_state := { bn_rm : T; bn_rv : T; bn_uw : T; bn_bias : T; bn_training : bool }.
  Variables (eps momentum : T).

  Definition bn_step (s : bn_state) (o : nop T) : bn_state * result (list T * T) :=
    let w := bn_weight O (bn_uw s) eps in
    match o with
    | NTrain => ({| bn_rm := bn_rm s; bn_rv := bn_rv s; bn_uw := bn_uw s; bn_bias := bn_bias s; bn_training := true |}, Ok ([], o_zero O))
    | NEval => ({| bn_rm := bn_rm s; bn_rv := bn_rv s; bn_uw := bn_uw s; bn_bias := bn_bias s; bn_training := false |}, Ok ([], o_zero O))
    | NReload => ({| bn_rm := bn_rm s; bn_rv := bn_rv s; bn_uw := bn_uw s; bn_bias := bn_bias s; bn_training := true |}, Ok ([], o_zero O))
    | NForward b =>
      if bn_training s
      then let mean := vmean b in let var := vvar b in
           ({| bn_rm := bn_update_mean O momentum (bn_rm s) mean; bn_rv := bn_update_var O momentum (bn_rv s) var;
               bn_uw := bn_uw s; bn_bias := bn_bias s; bn_training := true |},
            Ok (map (fun x => bn_forward_out O w (bn_bias s) eps x mean var) b,
                bn_forward_lad O w (bn_bias s) eps (o_zero O) mean var))
      else (s, Ok (map (fun x => bn_forward_out O w (bn_bias s) eps x (bn_rm s) (bn_rv s)) b,
                   bn_forward_lad O w (bn_bias s) eps (o_zero O) (bn_rm s) (bn_rv s)))
    | NInverse b =>
      if bn_training s && bn_inverse_unavailable_in_training then (s, InverseNotAvail)
      else (s, Ok (map (fun y => bn_inverse_out O w (bn_bias s) eps (bn_rm s) (bn_rv s) y) b,
                   bn_inverse_lad O w (bn_bias s) eps (bn_rm s) (bn_rv s) (o_zero O)))
    end.

  Definition an_run (s : an_state) (ops : list (nop T)) : an_state := fold_left (fun s o => fst (an_step s o)) ops s.
  Definition bn_run (s : bn_state) (ops : list (nop T)) : bn_state := fold_left (fun s o => fst (bn_step s o)) ops s.
End Norm.
