(* Executable model of nflows/utils/torchutils.py (C20, and shared by C04, C09,
   C13, C17, C18).  Tensors are row-major: a shape and a flat data list. *)
From Coq Require Import ZArith List Bool Arith Lia.
From NF Require Import Base.Ops Base.Result Base.PyVal Gen.Typechecks Gen.Utils.
Import ListNotations.

Section Generic.
  Context {A : Type}.

  Definition prod (l : list nat) : nat := fold_right Nat.mul 1 l.

  (* k consecutive chunks of size m *)
  Fixpoint chunks (m k : nat) (l : list A) : list (list A) :=
    match k with
    | O => []
    | S k' => firstn m l :: chunks m k' (skipn m l)
    end.

  (* 1-D x.repeat(n) *)
  Definition concat_copies (n : nat) (l : list A) : list A := concat (repeat l n).

  (* l.reshape(r, c).transpose(1, 0).reshape(-1) *)
  Definition transpose_flat (r c : nat) (d : A) (l : list A) : list A :=
    flat_map (fun j => map (fun i => nth (i * c + j) l d) (seq 0 r)) (seq 0 c).

  (* torchutils.tile, after the positive-int check *)
  Definition tile_data (d : A) (x : list A) (n : nat) : list A :=
    transpose_flat n (length x) d (concat_copies n x).

  (* Tensor.repeat itself rejects a bool size with a TypeError *)
  Definition tile (d : A) (x : list A) (n : pyval) : result (list A) :=
    if tc_is_positive_int n
    then (if isinstance_bool n then TypeErr else Ok (tile_data d x (Z.to_nat (py_int n))))
    else TypeErr.

  (* repeat_rows: unsqueeze(1).expand(s0, n, rest).reshape(s0*n, rest) *)
  Definition repeat_rows_data (rowlen rows n : nat) (l : list A) : list A :=
    flat_map (fun row => concat (repeat row n)) (chunks rowlen rows l).

  Record tensor := mkT { shape : list nat; data : list A }.

  Definition merge_leading_dims (x : tensor) (num_dims : pyval) : result tensor :=
    if negb (tc_is_positive_int num_dims) then TypeErr
    else let k := Z.to_nat (py_int num_dims) in
         if Nat.ltb (length (shape x)) k then ValueErr
         else Ok (mkT (prod (firstn k (shape x)) :: skipn k (shape x)) (data x)).

  Definition repeat_rows (x : tensor) (num_reps : pyval) : result tensor :=
    if negb (tc_is_positive_int num_reps) then TypeErr
    else match shape x with
         | [] => IndexErr
         | s0 :: rest =>
           let n := Z.to_nat (py_int num_reps) in
           merge_leading_dims (mkT (s0 :: n :: rest) (repeat_rows_data (prod rest) s0 n (data x)))
                              (PInt 2)
         end.

  (* torch.reshape with at most one -1 in the requested leading shape *)
  Definition count_neg (s : list Z) : nat := length (filter (fun z => Z.ltb z 0) s).
  Definition zprod_pos (s : list Z) : nat :=
    fold_right Nat.mul 1 (map Z.to_nat (filter (fun z => Z.leb 0 z) s)).
  Definition infer_shape (total : nat) (s : list Z) : result (list nat) :=
    if existsb (fun z => Z.ltb z (-1)) s then RuntimeErr
    else match count_neg s with
    | 0 => if Nat.eqb (zprod_pos s) total then Ok (map Z.to_nat s) else RuntimeErr
    | 1 => let p := zprod_pos s in
           if Nat.eqb p 0 then RuntimeErr
           else if Nat.eqb (total mod p) 0
                then Ok (map (fun z => if Z.ltb z 0 then total / p else Z.to_nat z) s)
                else RuntimeErr
    | _ => RuntimeErr
    end.

  Definition split_leading_dim (x : tensor) (s : list Z) : result tensor :=
    match shape x with
    | [] => IndexErr
    | s0 :: rest =>
      rbind (infer_shape s0 s) (fun s' => Ok (mkT (s' ++ rest) (data x)))
    end.
End Generic.
Arguments tensor A : clear implicits.

Section Numeric.
  Context {T : Type} (O : ops T).

  Definition vsum (l : list T) : T := fold_left (o_add O) l (o_zero O).

  Definition sum_except_batch (x : tensor T) (num_batch_dims : pyval) : result (tensor T) :=
    if negb (tc_is_nonnegative_int num_batch_dims) then TypeErr
    else let k := Z.to_nat (py_int num_batch_dims) in
         let rest := prod (skipn k (shape x)) in
         let lead := prod (firstn k (shape x)) in
         Ok (mkT (firstn k (shape x)) (map vsum (chunks rest lead (data x)))).

  (* torchutils.searchsorted on one row of bin locations and one input; its
     in-place effect on the caller's tensor is part of the result.  The
     comparison, the epsilon, whether the last edge is bumped / dropped and the
     final offset are GENERATED from the source (Gen/Utils.v). *)
  Fixpoint bump_last (eps : T) (l : list T) : list T :=
    match l with
    | [] => []
    | [a] => [o_add O a eps]
    | a :: r => a :: bump_last eps r
    end.
  Definition count (p : T -> bool) (l : list T) : nat := length (filter p l).
  Definition searchsorted_locs (locs : list T) : list T :=
    if utils_searchsorted_bumps_last then bump_last (utils_searchsorted_eps O) locs else locs.
  Definition searchsorted (locs : list T) (x : T) : Z :=
    let l1 := searchsorted_locs locs in
    let l2 := if utils_searchsorted_drop_last then removelast l1 else l1 in
    (Z.of_nat (count (fun l => utils_searchsorted_cmp O x l) l2) + utils_searchsorted_offset)%Z.

  Definition cbrt (x : T) : T := utils_cbrt O x.

  (* get_temperature: min(raw, 1) -- Python's min(a, b) returns b only if b < a *)
  Definition get_temperature (max_value bound : T) : T :=
    let raw := utils_temperature_raw O max_value bound in
    let cap := utils_temperature_cap O in
    if o_ltb O cap raw then cap else raw.
End Numeric.

(* mask constructors: lists of 0/1 *)
Definition alternating_mask (features : nat) (even : bool) : list bool :=
  map (fun i => if even then Nat.even i else Nat.odd i) (seq 0 features).
Definition midpoint (features : nat) : nat :=
  if Nat.eqb (features mod 2) 0 then features / 2 else features / 2 + 1.
Definition mid_split_mask (features : nat) : list bool :=
  map (fun i => Nat.ltb i (midpoint features)) (seq 0 features).
(* the random mask: `indices` stands for torch.multinomial's draw without
   replacement -- any duplicate-free list of positions < features of length
   midpoint(features) *)
Definition random_mask (features : nat) (indices : list nat) : list bool :=
  map (fun i => existsb (Nat.eqb i) indices) (seq 0 features).
Definition count_true (l : list bool) : nat := length (filter (fun b => b) l).
