(* Acceptance predicates over the structural tables generated from the source (Gen/Tables.v), and a
   small storage semantics showing what "no in-place write has an argument or registered state as its
   target" buys. *)
From Coq Require Import String List Bool Arith.
From NF Require Import Gen.Tables.
Import ListNotations.
Open Scope string_scope.

Definition mem (s : string) (l : list string) : bool := existsb (String.eqb s) l.
Fixpoint has_prefix (p s : string) : bool :=
  match p, s with
  | EmptyString, _ => true
  | String a p', String b s' => Ascii.eqb a b && has_prefix p' s'
  | _, _ => false
  end.
Fixpoint ends_with_aux (suffix s : string) (n : nat) : bool :=
  match n with
  | O => String.eqb suffix s
  | S m => String.eqb suffix s || match s with String _ s' => ends_with_aux suffix s' m | EmptyString => false end
  end.
Definition ends_with (suffix s : string) : bool := ends_with_aux suffix s (String.length s).

(* ---------------- C13: in-place writes ---------------- *)
(* root codes: 0 fresh local, 1 argument of a public function, 2 registered parameter/buffer, 3 other
   attribute of self, 4 result of a call / value handed to a private helper, 5 non-tensor, 6 unknown *)
Definition constructor_like (fn : string) : bool :=
  ends_with ".__init__" fn || ends_with "._initialize" fn || ends_with ".tile" fn.
(* the documented writes to model state: BatchNorm's running statistics (under `if self.training`) and
   ActNorm's data-dependent initialisation *)
Definition documented_state_write (fn : string) (training : bool) : bool :=
  (String.eqb fn "BatchNorm.forward" && training) || String.eqb fn "ActNorm._initialize".
Definition inplace_ok (row : string * string * string * nat * bool * string) : bool :=
  let '(file, fn, kind, root, training, src) := row in
  match root with
  | 0 | 4 | 5 => true
  | 3 => constructor_like fn                     (* plain attributes are only written while constructing *)
  | 2 => constructor_like fn || documented_state_write fn training
  | _ => false                                   (* 1: an argument of a public function; 6: unknown origin *)
  end.
Definition eval_mode_writes_state (row : string * string * string * nat * bool * string) : bool :=
  let '(file, fn, kind, root, training, src) := row in
  match root with 2 => negb (constructor_like fn) && negb training && negb (String.eqb fn "ActNorm._initialize") | _ => false end.

(* storage semantics: arguments and registered state have version counters; a write with a given root
   bumps the counter of the storage it targets *)
Inductive target := TFresh | TArg (i : nat) | TState (a : nat).
Definition versions : Type := ((nat -> nat) * (nat -> nat))%type.   (* arguments, state *)
Definition bump (f : nat -> nat) (i : nat) : nat -> nat := fun j => if Nat.eqb i j then S (f j) else f j.
Definition exec_write (v : versions) (t : target) : versions :=
  match t with
  | TFresh => v
  | TArg i => (bump (fst v) i, snd v)
  | TState a => (fst v, bump (snd v) a)
  end.
Definition exec (v : versions) (ws : list target) : versions := fold_left exec_write ws v.
Definition touches_nothing (t : target) : bool := match t with TFresh => true | _ => false end.

(* ---------------- C15: attribute registrations ---------------- *)
(* kinds: 0 parameter, 1 persistent buffer, 2 non-persistent buffer, 3 plain attribute, 4 constructor argument
   passed on to the parent class, 5 constructed object / sub-module *)
Definition attr_ok (row : string * string * string * nat * bool * string) : bool :=
  let '(file, cls, attr, kind, random, src) := row in
  if random then
    match kind with
    | 0 | 1 | 5 => true            (* travels in the state dict, or is a sub-module with its own registered state *)
    | 4 => String.eqb cls "RandomPermutation"    (* handed to Permutation.__init__, which registers it as a buffer *)
    | _ => false
    end
  else true.

(* ---------------- C16: gradient-blocking constructs ---------------- *)
Definition grad_allowed : list (string * string) := [
  ("nflows/transforms/normalization.py", "forward");        (* running statistics: mean.detach(), var.detach() *)
  ("nflows/transforms/normalization.py", "_initialize");    (* ActNorm data-dependent initialisation *)
  ("nflows/nn/nde/made.py", "sample"); ("nflows/nn/nde/made.py", "_initialize");
  ("nflows/nn/nde/made.py", "_get_mask_and_degrees"); ("nflows/nn/nde/made.py", "__init__");
  ("nflows/transforms/made.py", "_get_mask_and_degrees"); ("nflows/transforms/made.py", "__init__");
  ("nflows/distributions/uniform.py", "sample"); ("nflows/utils/torchutils.py", "tensor2numpy")
].
Definition grad_ok (row : string * string * nat * string) : bool :=
  let '(file, fn, kind, src) := row in
  existsb (fun p => String.eqb file (fst p) && String.eqb fn (snd p)) grad_allowed.

(* ---------------- C19: dtype-fixing constructors on evaluation paths ---------------- *)
(* (file, function) pairs whose float32-fixing sites do not reach a returned floating-point value in another
   dtype: integer / boolean masks, sampling noise, constructor-time buffers converted by .double(),
   helper functions outside the transforms' evaluation path *)
Definition dtype_allowed : list (string * string) := [
  ("nflows/distributions/discrete.py", "_sample");
  ("nflows/distributions/uniform.py", "_to_parameters"); ("nflows/distributions/uniform.py", "_to_noise");
  ("nflows/nn/nde/made.py", "_get_input_degrees"); ("nflows/nn/nde/made.py", "_get_mask_and_degrees");
  ("nflows/nn/nde/made.py", "sample"); ("nflows/nn/nets/resnet.py", "main");
  ("nflows/transforms/UMNN/MonotonicNormalizer.py", "_flatten"); ("nflows/transforms/UMNN/MonotonicNormalizer.py", "forward");
  ("nflows/transforms/UMNN/MonotonicNormalizer.py", "inverse_transform");
  ("nflows/transforms/autoregressive.py", "main");
  ("nflows/transforms/made.py", "_get_input_degrees"); ("nflows/transforms/made.py", "_get_mask_and_degrees");
  ("nflows/transforms/orthogonal.py", "inverse");           (* integer index *)
  ("nflows/transforms/splines/cubic.py", "cubic_spline");   (* 0/1 root-selection masks *)
  ("nflows/transforms/splines/linear.py", "linear_spline"); (* integer bin index as float *)
  ("nflows/utils/torchutils.py", "random_orthogonal"); ("nflows/utils/torchutils.py", "create_alternating_binary_mask");
  ("nflows/utils/torchutils.py", "create_mid_split_binary_mask"); ("nflows/utils/torchutils.py", "create_random_binary_mask");
  ("nflows/utils/torchutils.py", "get_temperature"); ("nflows/utils/torchutils.py", "gaussian_kde_log_eval")
].
Definition dtype_ok (row : string * string * nat * string) : bool :=
  let '(file, fn, kind, src) := row in
  existsb (fun p => String.eqb file (fst p) && String.eqb fn (snd p)) dtype_allowed.
