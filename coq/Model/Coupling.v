(* CouplingTransform (nflows/transforms/coupling.py), per batch item.
   An item is a list of F "feature slices" of an arbitrary type B: a number for
   2-D inputs, the h*w values of a channel for image inputs.  Equality on B is
   literal (bit-for-bit) equality.  The conditioner network, the elementwise
   kernel and the optional unconditional transform are parameters. *)
From Coq Require Import ZArith List Bool Arith Lia.
Import ListNotations.

(* masked_select(mask <= 0) / masked_select(mask > 0) on arange(F) *)
Definition identity_idx (mask : list Z) : list nat :=
  filter (fun i => Z.leb (nth i mask 0%Z) 0) (seq 0 (length mask)).
Definition transform_idx (mask : list Z) : list nat :=
  filter (fun i => Z.ltb 0 (nth i mask 0%Z)) (seq 0 (length mask)).

Section Coupling.
  Context {B P C L : Type}.
  Variable d : B.                                   (* default, never observed for in-range indices *)
  Variable net : list B -> C -> P.                  (* transform_net(identity_split, context) *)
  Variable kel_fwd kel_inv : P -> nat -> B -> B.    (* elementwise kernel on the k-th transformed feature *)
  Variable kld_fwd kld_inv : P -> list B -> L.      (* its log-det *)
  Variables (ladd : L -> L -> L) (lzero : L).
  (* optional unconditional transform on the identity part *)
  Variable uncond : option ((list B -> C -> list B * L) * (list B -> C -> list B * L)).

  Definition gather (idx : list nat) (x : list B) : list B := map (fun i => nth i x d) idx.

  (* position of i in idx, if any *)
  Fixpoint index_of (i : nat) (idx : list nat) : option nat :=
    match idx with
    | [] => None
    | j :: r => if Nat.eqb i j then Some 0 else option_map S (index_of i r)
    end.

  (* outputs = empty_like(inputs); outputs[id_idx] = a; outputs[tr_idx] = b *)
  Definition scatter2 (F : nat) (id_idx : list nat) (a : list B) (tr_idx : list nat) (b : list B) : list B :=
    map (fun i => match index_of i tr_idx with
                  | Some k => nth k b d
                  | None => match index_of i id_idx with Some k => nth k a d | None => d end
                  end) (seq 0 F).

  Definition mapi (f : nat -> B -> B) (l : list B) : list B :=
    map (fun p => f (fst p) (snd p)) (combine (seq 0 (length l)) l).

  Definition forward (mask : list Z) (x : list B) (ctx : C) : list B * L :=
    let idi := identity_idx mask in let tri := transform_idx mask in
    let id_split := gather idi x in
    let tr_split := gather tri x in
    let params := net id_split ctx in
    let tr' := mapi (kel_fwd params) tr_split in
    let ld := kld_fwd params tr_split in
    let '(id', ld') := match uncond with
                       | None => (id_split, ld)
                       | Some (uf, _) => let (y, l2) := uf id_split ctx in (y, ladd ld l2)
                       end in
    (scatter2 (length mask) idi id' tri tr', ld').

  Definition inverse (mask : list Z) (y : list B) (ctx : C) : list B * L :=
    let idi := identity_idx mask in let tri := transform_idx mask in
    let id_split := gather idi y in
    let tr_split := gather tri y in
    let '(id', ld0) := match uncond with
                       | None => (id_split, lzero)
                       | Some (_, ui) => ui id_split ctx
                       end in
    let params := net id' ctx in
    let tr' := mapi (kel_inv params) tr_split in
    (scatter2 (length mask) idi id' tri tr', ladd ld0 (kld_inv params tr_split)).
End Coupling.

(* parameter layout of the piecewise couplings: transform feature c receives the m
   consecutive network outputs c*m .. c*m+m-1 (2-D: reshape(b, d, -1)); for images
   (reshape(b, c, -1, h, w).permute(0, 1, 3, 4, 2)) feature c at position p receives
   network channels c*m .. c*m+m-1 at position p *)
Section Layout.
  Context {A : Type} (d : A).
  Definition params_2d (m T : nat) (netout : list A) : list (list A) :=
    map (fun c => map (fun k => nth (c * m + k) netout d) (seq 0 m)) (seq 0 T).
  Definition params_4d (m T npos : nat) (netout : list (list A)) : list (list (list A)) :=
    map (fun c => map (fun p => map (fun k => nth p (nth (c * m + k) netout []) d) (seq 0 m)) (seq 0 npos)) (seq 0 T).
  (* affine coupling: shift = first T channels, unconstrained scale = last T channels *)
  Definition affine_shift (T : nat) (netout : list A) : list A := firstn T netout.
  Definition affine_scale (T : nat) (netout : list A) : list A := skipn T netout.
End Layout.
