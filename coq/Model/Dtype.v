(* PyTorch's type promotion among the two floating dtypes the library is used with, for the operand kinds that
   occur in the code: dimensioned tensors, zero-dimensional tensors and Python scalars. *)
From Coq Require Import Bool List.
Import ListNotations.

Inductive fdtype := F32 | F64.
Inductive operand := Tensor (d : fdtype) | ZeroDim (d : fdtype) | PyScalar.

Definition fmax (a b : fdtype) : fdtype := match a, b with F32, F32 => F32 | _, _ => F64 end.
(* result dtype of an elementwise binary operation (torch.result_type): dimensioned tensors dominate zero-dim
   tensors, which dominate Python scalars, within the floating category *)
Definition result_dtype (a b : operand) : fdtype :=
  match a, b with
  | Tensor x, Tensor y => fmax x y
  | Tensor x, _ | _, Tensor x => x
  | ZeroDim x, ZeroDim y => fmax x y
  | ZeroDim x, PyScalar | PyScalar, ZeroDim x => x
  | PyScalar, PyScalar => F32            (* torch.get_default_dtype() *)
  end.
Definition result_operand (a b : operand) : operand :=
  match a, b with
  | Tensor _, _ | _, Tensor _ => Tensor (result_dtype a b)
  | _, _ => ZeroDim (result_dtype a b)
  end.

(* an expression over one dimensioned input of dtype d, zero-dim buffers / parameters converted with the model
   (same dtype d), float64 zero-dim constants (e.g. the _log_z buffers) and Python scalars *)
Inductive expr := Input | Param | Const64 | Scalar | Bin (a b : expr).
Fixpoint eval (d : fdtype) (e : expr) : operand :=
  match e with
  | Input => Tensor d
  | Param => Tensor d
  | Const64 => ZeroDim F64
  | Scalar => PyScalar
  | Bin a b => result_operand (eval d a) (eval d b)
  end.
Fixpoint mentions_input (e : expr) : bool :=
  match e with Input | Param => true | Bin a b => mentions_input a || mentions_input b | _ => false end.
